"""barril verification machinery (property-based testing / fuzzing).  See /verif/DESIGN.md."""
