"""Property-preserving changes: every check must stay quiet on them (DESIGN §7).

  python -m bv.benign [name ...] [--tier quick|thorough] [--only PID,PID]

benign/<name>.diff are changes to ESSS/barril under which all twenty properties still hold (a unit, category or legacy
pair added to the table, a private memo renamed, messages reworded, conversions differing by one rounding, a correct
cache, registration order of non-base units).  Each is applied to a scratch copy of /repo's HEAD (outside /repo and
/verif, removed afterwards) and every registered check is run on it; anything but exit 0 is reported.  Some of them do
not pass the repository's own tests (those pin message texts and last digits); the properties do not.
"""
import json
import os
import subprocess
import sys
import time

from bv import mutants

VERIF = mutants.VERIF
BENIGN = os.path.join(VERIF, "benign")
PY = mutants.PY


def pids():
    return sorted(f[:-3].upper() for f in os.listdir(os.path.join(VERIF, "bv", "props")) if f.startswith("c") and f.endswith(".py"))


def run_one(name, tier, only):
    tmp, tree = mutants.scratch_copy()
    out = {"benign": name, "tier": tier, "alarms": [], "quiet": []}
    try:
        ap = subprocess.run(["git", "-C", tree, "apply", os.path.join(BENIGN, name + ".diff")], capture_output=True, text=True)
        if ap.returncode != 0:
            out["status"] = "PATCH-FAILED"
            out["detail"] = ap.stderr[-300:]
            return out
        for pid in only or pids():
            t0 = time.time()
            c = subprocess.run([PY, "-m", "bv.run", pid, "--tier", tier, "--no-evidence"], cwd=VERIF, capture_output=True, text=True, env=dict(os.environ, VERIF_REPO=tree))
            if c.returncode == 0:
                out["quiet"].append(pid)
            else:
                lines = [l[:400] for l in (c.stdout + c.stderr).splitlines() if l.startswith(("VIOLATION", "HARNESS", "  [", "Traceback")) or "Error" in l]
                out["alarms"].append({"pid": pid, "rc": c.returncode, "wall": round(time.time() - t0, 1), "lines": lines[:4]})
        out["status"] = "quiet" if not out["alarms"] else "ALARM"
        return out
    finally:
        mutants.drop_copy(tmp)


def main(argv):
    tier = "quick"
    only = None
    names = []
    it = iter(argv)
    for a in it:
        if a == "--tier":
            tier = next(it)
        elif a == "--only":
            only = next(it).upper().split(",")
        else:
            names.append(a)
    if not names:
        names = sorted(f[:-5] for f in os.listdir(BENIGN) if f.endswith(".diff"))
    bad = 0
    for n in names:
        r = run_one(n, tier, only)
        print(json.dumps(r))
        sys.stdout.flush()
        bad += r["status"] != "quiet"
    sys.exit(1 if bad else 0)


if __name__ == "__main__":
    main(sys.argv[1:])
