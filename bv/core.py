"""Counters, violations, known findings, evidence, Hypothesis plumbing."""
import collections
import json
import math
import os
import re
import time
import zlib

from . import env

MAX_SAMPLES = 12
MAX_VIOLATIONS_REPORTED = 10


class Viol(Exception):
    """An oracle failure inside a Hypothesis-driven test (raised so that Hypothesis shrinks it)."""

    def __init__(self, key, case, msg):
        Exception.__init__(self, "%s: %s" % (key, msg))
        self.key = key
        self.case = case
        self.msg = msg


class HarnessError(Exception):
    """Something is wrong with the machinery itself (never reported as a violation)."""


def jsonable(x):
    """Best-effort conversion of a case to plain JSON (floats kept exact through repr when odd)."""
    import numpy

    if isinstance(x, float):
        if math.isnan(x):
            return {"__float__": "nan"}
        if math.isinf(x):
            return {"__float__": "inf" if x > 0 else "-inf"}
        return x
    if isinstance(x, (str, int, bool)) or x is None:
        return x
    if isinstance(x, numpy.generic):
        return jsonable(x.item())
    if isinstance(x, numpy.ndarray):
        return {"__ndarray__": [jsonable(v) for v in x.tolist()], "dtype": str(x.dtype)}
    if isinstance(x, tuple):
        return {"__tuple__": [jsonable(v) for v in x]}
    if isinstance(x, (list, set, frozenset)):
        return [jsonable(v) for v in x]
    if isinstance(x, dict):
        return {str(k): jsonable(v) for k, v in x.items()}
    return repr(x)


def unjson(x):
    import numpy

    if isinstance(x, dict):
        if "__float__" in x:
            return float(x["__float__"])
        if "__tuple__" in x:
            return tuple(unjson(v) for v in x["__tuple__"])
        if "__ndarray__" in x:
            return numpy.array([unjson(v) for v in x["__ndarray__"]], dtype=x.get("dtype", "float64"))
        return {k: unjson(v) for k, v in x.items()}
    if isinstance(x, list):
        return [unjson(v) for v in x]
    return x


def h64(key):
    """Stable 64-bit-ish hash of a case key (does not depend on PYTHONHASHSEED)."""
    s = repr(key).encode("utf-8", "replace")
    return (zlib.crc32(s) << 32) | zlib.adler32(s)


# ---------------------------------------------------------------------------------------------
# known findings


class KnownFindings:
    """KNOWN_FINDINGS.txt: `open: property=<id> key=<exact key> :: text` and `fixed: ...` lines.

    Only `open:` lines suppress anything, and only a failure whose root-cause key (which embeds the
    call site, the input class and the wrong outcome predicted by the bug model) is *identical*.
    The file is never written at run time.
    """

    PATH = os.path.join(env.VERIF, "KNOWN_FINDINGS.txt")

    def __init__(self, pid):
        self.open = {}  # key -> text
        self.fixed = []
        if not os.path.exists(self.PATH):
            return
        for line in open(self.PATH, encoding="utf-8"):
            line = line.strip()
            if not line or line.startswith("#"):
                continue
            m = re.match(r"^open:\s+property=(\S+)\s+key=(.+?)\s+::\s+(.*)$", line)
            if m:
                if m.group(1) == pid:
                    self.open[m.group(2)] = m.group(3)
                continue
            m = re.match(r"^fixed:\s+property=(\S+)\s+(.*)$", line)
            if m:
                if m.group(1) == pid:
                    self.fixed.append(m.group(2))
                continue
            raise HarnessError("unparsable KNOWN_FINDINGS line: %r" % line)


# ---------------------------------------------------------------------------------------------
# per-shard context


class Ctx:
    """What one shard of one check run explored and found."""

    def __init__(self, pid, tier, seed, shard=0, known=None, budget_s=None):
        self.pid = pid
        self.tier = tier
        self.seed = seed
        self.shard = shard
        self.known = known if known is not None else {}
        self.evaluations = 0
        self.nt = set()
        self.nt_disjoint = 0  # non-trivial cases counted without hashing (disjoint by construction)
        self.classes = collections.Counter()
        self.samples = []
        self.violations = {}  # key -> dict(case=, msg=)
        self.known_hits = collections.Counter()
        self.suppressed = set()
        self.notes = []
        self.exhaustive = {}
        self.budget_exhausted = False
        self.t0 = time.time()
        self.deadline = None if budget_s is None else self.t0 + budget_s
        self.extra = {}

    # -- counting
    def ev(self, n=1):
        self.evaluations += n

    def nontrivial(self, key, sample=None):
        hk = h64(key)
        if hk not in self.nt:
            self.nt.add(hk)
            if sample is not None and len(self.samples) < MAX_SAMPLES:
                self.samples.append(jsonable(sample))

    def sample(self, case):
        if len(self.samples) < MAX_SAMPLES:
            self.samples.append(jsonable(case))

    def cls(self, name, n=1):
        self.classes[name] += n

    def out_of_time(self):
        if self.deadline is not None and time.time() > self.deadline:
            self.budget_exhausted = True
            return True
        return False

    # -- failures
    def _filtered(self, key):
        if key in self.known:
            self.known_hits[key] += 1
            return True
        if key in self.suppressed or key in self.violations:
            self.classes["repeat_of_reported_root_cause"] += 1
            return True
        return False

    def record(self, key, case, msg):
        """Collect mode: remember the first (already minimal) case per root cause, keep going."""
        if self._filtered(key):
            return
        self.violations[key] = {"case": jsonable(case), "msg": str(msg)[:2000]}

    def fail(self, key, case, msg):
        """Raise mode (inside Hypothesis): shrinkable failure unless known / already reported."""
        if self._filtered_for_raise(key):
            return
        raise Viol(key, case, msg)

    def _filtered_for_raise(self, key):
        if key in self.known:
            self.known_hits[key] += 1
            return True
        if key in self.suppressed:
            self.classes["repeat_of_reported_root_cause"] += 1
            return True
        return False

    def result(self):
        return {
            "shard": self.shard,
            "evaluations": self.evaluations,
            "nt": self.nt,
            "nt_disjoint": self.nt_disjoint,
            "classes": dict(self.classes),
            "samples": self.samples,
            "violations": self.violations,
            "known_hits": dict(self.known_hits),
            "notes": self.notes,
            "exhaustive": self.exhaustive,
            "budget_exhausted": self.budget_exhausted,
            "wall_s": time.time() - self.t0,
            "extra": self.extra,
        }


# ---------------------------------------------------------------------------------------------
# Hypothesis plumbing


def hyp_settings(max_examples, shrink=True, **kw):
    from hypothesis import HealthCheck, Phase, settings

    phases = [Phase.explicit, Phase.generate]
    if shrink:
        phases.append(Phase.shrink)
    return settings(
        max_examples=max_examples,
        database=None,
        deadline=None,
        derandomize=False,
        report_multiple_bugs=False,
        print_blob=False,
        phases=phases,
        suppress_health_check=[HealthCheck.too_slow, HealthCheck.data_too_large, HealthCheck.large_base_example],
        **kw
    )


def hunt(ctx, make_test, seed, max_examples, shrink=True, max_root_causes=None):
    """Run a Hypothesis test; on a violation record the shrunk case, exclude that root cause by
    construction (ctx.suppressed) and search again, so one shallow defect does not hide the next.

    `make_test()` returns a function decorated with @given(...) whose body calls ctx.fail(...).
    """
    import hypothesis
    from hypothesis import seed as hseed
    from hypothesis.errors import FailedHealthCheck, Unsatisfiable

    found = 0
    if max_root_causes is None:
        max_root_causes = 3 if ctx.tier == "quick" else 8
    for attempt in range(max_root_causes):
        if ctx.out_of_time():
            return found
        test = make_test()
        test = hseed(seed + 7919 * attempt)(hyp_settings(max_examples, shrink=shrink)(test))
        try:
            test()
            return found
        except Viol as v:
            found += 1
            ctx.violations.setdefault(v.key, {"case": jsonable(v.case), "msg": str(v.msg)[:2000]})
            ctx.suppressed.add(v.key)
            if ctx.out_of_time():
                return found
        except (FailedHealthCheck, Unsatisfiable) as e:
            raise HarnessError("generator health check: %r" % (e,))
        except hypothesis.errors.FlakyFailure as e:
            # the oracle failed on a generated case and passed when Hypothesis ran the same case again: something outside
            # the case decided.  The harness starts every case cold from what it knows of the library's state; state the
            # tree keeps elsewhere (a new class-level memo, say) survives between cases.  The violation that was observed
            # is reported as it was seen (unshrunk); only when none can be found in the report is it a harness error.
            seen = _find_viol(e)
            if seen is None:
                raise HarnessError("flaky property (state leaks between cases?): %r" % (e,))
            found += 1
            ctx.violations.setdefault(seen.key, {"case": jsonable(seen.case), "msg": (str(seen.msg) + " [seen once; the same case passed when it was run again in the same process: the outcome depends on earlier cases]")[:2000]})
            ctx.suppressed.add(seen.key)
            if ctx.out_of_time():
                return found
    return found


def _find_viol(exc, depth=0):
    """the first Viol inside an exception group / cause chain (Hypothesis wraps flaky failures in groups)"""
    if isinstance(exc, Viol):
        return exc
    if depth > 6 or exc is None:
        return None
    for sub in list(getattr(exc, "exceptions", ()) or ()) + [getattr(exc, "__cause__", None), getattr(exc, "__context__", None)]:
        v = _find_viol(sub, depth + 1)
        if v is not None:
            return v
    return None


def tree_frame(exc):
    """Innermost traceback frame that lies in the tree under test, or None."""
    import traceback as tb

    frames = tb.extract_tb(exc.__traceback__)
    if not frames:
        return None
    # innermost frame that belongs to the tree under test or to the harness decides: code the tree evaluates from
    # strings (its formula lambdas, file "<string>") and library code it calls (numpy) sit below a tree frame
    here = os.path.dirname(os.path.abspath(__file__)) + os.sep
    for fr in reversed(frames):
        fn = os.path.abspath(fr.filename) if not fr.filename.startswith("<") else fr.filename
        if fn.startswith(env.SRC + os.sep):
            return "%s:%s" % (os.path.relpath(fn, env.SRC), fr.name)
        if fn.startswith(here):
            return None
    return None


def guarded(ctx, fn, case, allowed=()):
    """Run an oracle on a case.  An exception raised *inside the tree under test* by an operation the
    property says must succeed is a violation (shrinkable); an exception raised by the harness itself
    propagates and ends the run as a harness error.  Once the tier's time budget is used up the remaining generated
    cases are skipped (counted; the run is then reported as inconclusive beyond what was explored)."""
    if ctx.out_of_time():
        ctx.cls("cases_skipped_after_the_time_budget")
        return None
    try:
        return fn(case)
    except Viol:
        raise
    except allowed:
        ctx.cls("allowed_exception")
        return None
    except Exception as e:
        where = tree_frame(e)
        if where is None:
            raise
        ctx.fail("unexpected_exception:%s@%s" % (type(e).__name__, where), case, "valid operation raised %s: %s" % (type(e).__name__, str(e)[:300]))


def replay_guarded(ctx, fn, case):
    """Replay helper: list of failure messages for one case."""
    try:
        guarded(ctx, fn, case)
    except Viol as v:
        return ["%s: %s" % (v.key, v.msg)]
    return ["%s: %s" % (k, v["msg"]) for k, v in ctx.violations.items()]


# ---------------------------------------------------------------------------------------------
# numeric helpers shared by the oracles


def close(got, want, scale, rel=1e-12, abs_floor=0.0):
    """|got-want| <= rel*scale (+abs_floor); scale is stated by the caller (see DESIGN §4)."""
    if got == want:
        return True
    try:
        return abs(got - want) <= rel * scale + abs_floor
    except TypeError:
        return False


def is_finite(x):
    try:
        return math.isfinite(x)
    except TypeError:
        return False
