"""Line coverage of barril under the checks (generator-distribution aid, never a verdict):

  python -m bv.cover [--tier quick] [PID ...]   -> prints per-file coverage and the uncovered lines of the anchored files
"""
import glob
import json
import os
import shutil
import subprocess
import sys
import tempfile

HERE = os.path.dirname(os.path.abspath(__file__))
VERIF = os.path.dirname(HERE)
ANCHORED = ["units/unit_database.py", "units/_quantity.py", "units/_scalar.py", "units/_array.py", "units/_fixedarray.py", "units/_fraction_scalar.py", "units/_value_generator.py", "units/_abstractvaluewithquantity.py", "units/unit_system.py", "units/unit_system_manager.py", "curve/curve.py", "basic/fraction/_fraction.py", "basic/fraction/_fraction_value.py", "_util/types_.py"]


def main(argv):
    import coverage

    tier = "quick"
    pids = [a.upper() for a in argv if not a.startswith("--") and a not in ("quick", "thorough")]
    if "--tier" in argv:
        tier = argv[argv.index("--tier") + 1]
    if not pids:
        pids = [c["property_id"] for c in json.load(open(os.path.join(VERIF, "MANIFEST.json")))["checks"]]
    d = tempfile.mkdtemp(prefix="bv-cov-")
    try:
        for pid in pids:
            r = subprocess.run([sys.executable, "-m", "bv.run", pid, "--tier", tier, "--no-evidence"], cwd=VERIF, env=dict(os.environ, BV_COVERAGE=d), capture_output=True, text=True)
            print(pid, "rc=%d" % r.returncode, (r.stdout.splitlines() or [""])[0][:120])
            sys.stdout.flush()
        cov = coverage.Coverage(data_file=os.path.join(d, "combined"))
        cov.combine(glob.glob(os.path.join(d, "cov.*")))
        cov.save()
        data = cov.get_data()
        src = os.path.join(os.path.abspath(os.environ.get("VERIF_REPO", "/repo")), "src", "barril")
        for rel in ANCHORED:
            f = os.path.join(src, rel)
            try:
                _, stmts, _, missing, _ = cov.analysis2(f)
            except Exception as e:
                print("%-45s not measured (%s)" % (rel, type(e).__name__))
                continue
            pct = 100.0 * (len(stmts) - len(missing)) / max(1, len(stmts))
            print("%-45s %5.1f%%  missing: %s" % (rel, pct, _ranges(missing)))
    finally:
        shutil.rmtree(d, ignore_errors=True)


def _ranges(nums):
    out, start, prev = [], None, None
    for n in nums:
        if start is None:
            start = prev = n
        elif n == prev + 1:
            prev = n
        else:
            out.append("%d" % start if start == prev else "%d-%d" % (start, prev))
            start = prev = n
    if start is not None:
        out.append("%d" % start if start == prev else "%d-%d" % (start, prev))
    return ",".join(out)


if __name__ == "__main__":
    main(sys.argv[1:])
