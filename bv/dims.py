"""Generators for derived quantities and expression trees (shared by C03, C04, C05, C09, C10, C20)."""
from collections import OrderedDict

from hypothesis import strategies as st

from bv import gen
from bv.model import UnitModel

FAVOURED = ["length", "time", "mass", "pressure", "volume", "temperature", "area", "force", "velocity"]


class DimPool:
    """Quantity types with >= 2 scale-only units and their categories, read from the database."""

    def __init__(self, db, um=None, max_units=6, only_alpha=False):
        self.db = db
        self.um = um or UnitModel(db)
        cats = {}
        for c in db.IterCategories():
            cats.setdefault(db.GetCategoryQuantityType(c), []).append(c)
        self.cats = cats
        self.units = {}
        for qt in sorted(db.quantity_types):
            if qt not in cats or qt == "Unknown":
                continue
            us = [u for u in self.um.scale_units(qt)]
            if only_alpha:
                us = [u for u in us if u.isalpha()]
            if len(us) >= 2:
                # prefer short well-known symbols first; keep a bounded number per type
                self.units[qt] = us[:max_units]
        self.qts = sorted(self.units)
        self.fav = [q for q in FAVOURED if q in self.units]

    def qt_strategy(self):
        if self.fav:
            return st.one_of(st.sampled_from(self.fav), st.sampled_from(self.fav), st.sampled_from(self.qts))
        return st.sampled_from(self.qts)

    # -- leaves -------------------------------------------------------------------------------
    def leaf_strategy(self, values=None):
        values = gen.moderate_values() if values is None else values

        @st.composite
        def leaf(draw):
            qt = draw(self.qt_strategy())
            u = draw(st.sampled_from(self.units[qt]))
            c = draw(st.sampled_from(self.cats[qt]))
            v = draw(values)
            return ("leaf", v, u, c)

        return leaf()

    # -- shapes and instances (C03, C05, C10) ---------------------------------------------------
    def shape_strategy(self, max_factors=4, max_exp=3):
        exps = st.sampled_from([e for e in range(-max_exp, max_exp + 1) if e != 0])

        @st.composite
        def shape(draw):
            n = draw(st.integers(1, max_factors))
            fs = []
            for _ in range(n):
                fs.append((draw(self.qt_strategy()), draw(exps)))
            # per quantity type totals must be non-zero (a zero total is not a factor of the dimension)
            tot = {}
            for qt, e in fs:
                tot[qt] = tot.get(qt, 0) + e
            fs = [(qt, e) for qt, e in fs if tot[qt] != 0]
            if not fs:
                fs = [(draw(self.qt_strategy()), draw(st.sampled_from([1, 2, -1])))]
            return fs

        return shape()

    def instance_strategy(self, shape):
        """category -> [unit, exp] with one unit per quantity type and a distinct category per factor
        (factors that cannot get a fresh category are merged into an existing one of that type)."""

        @st.composite
        def inst(draw):
            units = {}
            d = OrderedDict()
            for qt, e in shape:
                if qt not in units:
                    units[qt] = draw(st.sampled_from(self.units[qt]))
                free = [c for c in self.cats[qt] if c not in d]
                if free:
                    c = draw(st.sampled_from(free))
                    d[c] = [units[qt], e]
                else:
                    c = draw(st.sampled_from(self.cats[qt]))
                    d[c][1] += e
            for c in [c for c, ue in d.items() if ue[1] == 0]:
                del d[c]
            return d, units

        return inst()


def totals(db, d):
    t = {}
    for c, (u, e) in d.items():
        qt = db.GetCategoryQuantityType(c)
        t[qt] = t.get(qt, 0) + e
    return {k: v for k, v in t.items() if v}


def build_direct(d, value):
    """Scalar on the derived quantity `d` without any arithmetic."""
    from barril.units import ObtainQuantity, Quantity, Scalar

    if len(d) == 1:
        (c, (u, e)), = d.items()
        if e == 1:
            return Scalar.CreateWithQuantity(ObtainQuantity(u, c), value)
    q = Quantity.CreateDerived(OrderedDict((c, [u, e]) for c, (u, e) in d.items()))
    return Scalar.CreateWithQuantity(q, value)


def build_by_arithmetic(d, value):
    """The same amount built by multiplying / dividing leaf Scalars (no unit conversion involved,
    because an instance uses one unit per quantity type)."""
    from barril.units import Scalar

    acc = None
    for c, (u, e) in d.items():
        f = Scalar(1.0, u, c)
        for _ in range(abs(e)):
            if e > 0:
                acc = f if acc is None else acc * f
            else:
                acc = (1.0 / f) if acc is None else acc / f
    return acc * value


# -- expression trees (C04, C20) ---------------------------------------------------------------


def tree_strategy(pool, max_depth=4, values=None, ops=("*", "/", "//", "**"), max_pow=3):
    leaf = pool.leaf_strategy(values)

    def extend(children):
        alts = []
        if "*" in ops:
            alts += [st.tuples(st.just("*"), children, children)] * 3
        if "/" in ops:
            alts += [st.tuples(st.just("/"), children, children)] * 3
        if "//" in ops:
            alts.append(st.tuples(st.just("//"), children, children))
        if "**" in ops:
            alts.append(st.tuples(st.just("**"), children, st.integers(1, max_pow)))
        return st.one_of(*alts)

    return st.recursive(leaf, extend, max_leaves=2 ** (max_depth - 1))


def tree_leaves(t):
    if t[0] == "leaf":
        return [t]
    if t[0] == "**":
        return tree_leaves(t[1])
    return tree_leaves(t[1]) + tree_leaves(t[2])


def tree_depth(t):
    if t[0] == "leaf":
        return 0
    if t[0] == "**":
        return 1 + tree_depth(t[1])
    return 1 + max(tree_depth(t[1]), tree_depth(t[2]))


def tree_size_exp(t):
    """Upper bound of the absolute exponent any quantity type can reach in the tree."""
    if t[0] == "leaf":
        return 1
    if t[0] == "**":
        return tree_size_exp(t[1]) * t[2]
    return tree_size_exp(t[1]) + tree_size_exp(t[2])
