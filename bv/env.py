"""Import barril from the tree under test and own its process-wide state.

The tree under test is $VERIF_REPO (default /repo).  `bv.run` re-executes itself
with PYTHONPATH=<tree>/src in front, so `import barril` picks the working tree
(there are no compiled artefacts: "rebuilding" is a fresh interpreter with
byte-code caching redirected to a throw-away directory).
"""
import contextlib
import os
import sys

REPO = os.path.abspath(os.environ.get("VERIF_REPO", "/repo"))
SRC = os.path.join(REPO, "src")
VERIF = os.path.dirname(os.path.dirname(os.path.abspath(__file__)))


def ensure_path():
    if SRC not in sys.path[:2]:
        sys.path.insert(0, SRC)


def assert_tree():
    """barril must come from the tree we were asked to check."""
    ensure_path()
    import barril

    f = os.path.abspath(barril.__file__)
    if not f.startswith(SRC + os.sep):
        raise RuntimeError("barril imported from %s, expected under %s" % (f, SRC))
    return f


# ---------------------------------------------------------------------------------------------
# databases


def new_db(kind="posc"):
    """Build one of the databases the library can build by itself (not pushed)."""
    from barril.units import UnitDatabase

    db = UnitDatabase()
    if kind == "posc":
        UnitDatabase.FillUnitDatabaseWithPosc(db)
    elif kind == "posc_nocat":
        UnitDatabase.FillUnitDatabaseWithPosc(db, fill_categories=False)
    elif kind == "simple":
        UnitDatabase.FillSimple(db)
    elif kind == "empty":
        pass
    else:
        raise ValueError(kind)
    return db


def clear_caches(db):
    """Empty the database's memo tables so that a reused database starts cold.  The tables are implementation
    details (one of them private): when the tree under test names them differently, answer False and let the
    caller build a fresh database instead - never fail on a rename."""
    tables = [getattr(db, "quantities_cache", None), getattr(db, "_category_unit_valid", None)]
    if any(not isinstance(t, dict) for t in tables):
        return False
    for t in tables:
        t.clear()
    return True


def reset_globals():
    """State cached at class level that is bound to whichever database was current."""
    from barril.units import Quantity

    if hasattr(Quantity, "_EMPTY_QUANTITY"):
        Quantity._EMPTY_QUANTITY = None


@contextlib.contextmanager
def pushed(db):
    """Make `db` the current UnitDatabase for the duration of the block."""
    from barril.units import UnitDatabase

    UnitDatabase.PushSingleton(db)
    reset_globals()
    try:
        yield db
    finally:
        UnitDatabase.PopSingleton()
        reset_globals()


def default_db():
    from barril.units import UnitDatabase

    return UnitDatabase.GetSingleton()
