"""Import barril from the tree under test and own its process-wide state.

The tree under test is $VERIF_REPO (default /repo).  `bv.run` re-executes itself
with PYTHONPATH=<tree>/src in front, so `import barril` picks the working tree
(there are no compiled artefacts: "rebuilding" is a fresh interpreter with
byte-code caching redirected to a throw-away directory).
"""
import contextlib
import os
import sys

REPO = os.path.abspath(os.environ.get("VERIF_REPO", "/repo"))
SRC = os.path.join(REPO, "src")
VERIF = os.path.dirname(os.path.dirname(os.path.abspath(__file__)))


def ensure_path():
    if SRC not in sys.path[:2]:
        sys.path.insert(0, SRC)


def assert_tree():
    """barril must come from the tree we were asked to check."""
    ensure_path()
    import barril

    f = os.path.abspath(barril.__file__)
    if not f.startswith(SRC + os.sep):
        raise RuntimeError("barril imported from %s, expected under %s" % (f, SRC))
    return f


# ---------------------------------------------------------------------------------------------
# databases


def new_db(kind="posc"):
    """Build one of the databases the library can build by itself (not pushed)."""
    from barril.units import UnitDatabase

    db = UnitDatabase()
    if kind == "posc":
        UnitDatabase.FillUnitDatabaseWithPosc(db)
    elif kind == "posc_nocat":
        UnitDatabase.FillUnitDatabaseWithPosc(db, fill_categories=False)
    elif kind == "simple":
        UnitDatabase.FillSimple(db)
    elif kind == "empty":
        pass
    else:
        raise ValueError(kind)
    return db


def skewed_db():
    """A database of the kind a project defines for itself: it uses symbols and category names of the shipped table
    with *other* factors and fewer units (cm = 50 m, ft = 2 m, km = m/250, degC = K - 100, min = 10 s, h = 100 s; no
    'mi', no 'in').  Alive next to the shipped one, and sometimes the current one, it makes visible what is looked up
    in "the database that happens to be current" where an object's own database is meant."""
    from barril.units import UnitDatabase

    db = UnitDatabase()
    db.AddUnitBase("length", "meters", "m")
    db.AddUnit("length", "centimeters", "cm", "%f * 50.0", "%f / 50.0")
    db.AddUnit("length", "feet", "ft", "%f * 2.0", "%f / 2.0")
    db.AddUnit("length", "kilometers", "km", lambda x: x / 250.0, lambda x: x * 250.0)
    db.AddUnitBase("temperature", "Kelvin", "K")
    db.AddUnit("temperature", "Celsius", "degC", "%f - 100.0", "%f + 100.0")
    db.AddUnit("temperature", "Fahrenheit", "degF", "%f * 2.0 - 50.0", "(%f + 50.0) / 2.0")
    db.AddUnitBase("time", "seconds", "s")
    db.AddUnit("time", "minutes", "min", "%f / 10.0", "%f * 10.0")
    db.AddUnit("time", "hours", "h", "%f / 100.0", "%f * 100.0")
    db.AddCategory("length", "length")
    db.AddCategory("depth", "length", default_unit="ft", min_value=-5.0, max_value=5.0)
    db.AddCategory("temperature", "temperature")
    db.AddCategory("time", "time")
    return db


def renamed_db():
    """A project database whose category names and unit symbols are the shipped ones while its quantity types are
    named differently (category 'length' with unit 'm' is of quantity type 'distance'): anything remembered per
    (category, unit) outside a database shows when it is used first."""
    from barril.units import UnitDatabase

    db = UnitDatabase()
    db.AddUnitBase("distance", "meters", "m")
    db.AddUnit("distance", "centimeters", "cm", "%f * 100.0", "%f / 100.0")
    db.AddUnit("distance", "kilometers", "km", "%f / 1000.0", "%f * 1000.0")
    db.AddUnit("distance", "feet", "ft", "%f / 0.3048", "%f * 0.3048")
    db.AddUnitBase("duration", "seconds", "s")
    db.AddUnit("duration", "minutes", "min", "%f / 60.0", "%f * 60.0")
    db.AddUnit("duration", "hours", "h", "%f / 3600.0", "%f * 3600.0")
    db.AddUnitBase("heat", "Kelvin", "K")
    db.AddUnit("heat", "Celsius", "degC", "%f - 273.15", "%f + 273.15")
    for c, qt in (("length", "distance"), ("depth", "distance"), ("diameter", "distance"), ("time", "duration"), ("temperature", "heat")):
        db.AddCategory(c, qt)
    return db


def refused_reregistrations(db, symbols):
    """Try to register symbols the database already has once more, with other formulas.  The library refuses (a unit
    symbol belongs to one quantity type, once); a refused call changes nothing, so everything checked afterwards is
    checked against the table as shipped.  Returns the symbols for which the call was *not* refused."""
    accepted = []
    for sym in symbols:
        info = db.unit_to_unit_info.get(sym)
        if info is None:
            continue
        try:
            db.AddUnit(info.quantity_type, "registered again", sym, "%f * 0.3", "%f / 0.3")
        except Exception:
            continue
        accepted.append(sym)
    return accepted


def clear_caches(db):
    """Empty the database's memo tables so that a reused database starts cold.  The tables are implementation
    details (one of them private): when the tree under test names them differently, answer False and let the
    caller build a fresh database instead - never fail on a rename."""
    tables = [getattr(db, "quantities_cache", None), getattr(db, "_category_unit_valid", None)]
    if any(not isinstance(t, dict) for t in tables):
        return False
    for t in tables:
        t.clear()
    return True


def reset_globals():
    """State cached at class level that is bound to whichever database was current."""
    from barril.units import Quantity

    if hasattr(Quantity, "_EMPTY_QUANTITY"):
        Quantity._EMPTY_QUANTITY = None


@contextlib.contextmanager
def pushed(db):
    """Make `db` the current UnitDatabase for the duration of the block."""
    from barril.units import UnitDatabase

    UnitDatabase.PushSingleton(db)
    reset_globals()
    try:
        yield db
    finally:
        UnitDatabase.PopSingleton()
        reset_globals()


def default_db():
    from barril.units import UnitDatabase

    return UnitDatabase.GetSingleton()
