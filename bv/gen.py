"""Hypothesis strategies shared by the checks (DESIGN §4)."""
import math

from hypothesis import strategies as st

# offsets of the affine units of the shipped table (degC, degF, gauge pressures) and neighbours
_AFFINE = [273.15, 459.67, 255.3722222222222, 101325.0, 1.01325, 101.325, 1.0332274527998859, 14.695948775513449, 32.0]


def _edges():
    out = [0.0, 1.0, -1.0, 2.0, 0.5, 0.1, 0.3, -0.1, 1e-30, -1e-30, 1e30, -1e30, 1e-9, 3.7, 123456.789, 2.5e15, 7e-15, 1024.0, 2.0**-20]
    for a in _AFFINE:
        for s in (1.0, -1.0):
            v = s * a
            out += [v, math.nextafter(v, math.inf), math.nextafter(v, -math.inf)]
    return out


EDGE_VALUES = _edges()


def finite_values(max_mag=1e30, min_mag=1e-30):
    """Finite floats in the property's bounded magnitude range, half of them edge values."""
    mags = st.floats(min_value=min_mag, max_value=max_mag, allow_nan=False, allow_infinity=False)
    gen = st.builds(lambda m, neg: -m if neg else m, mags, st.booleans())
    # the third branch adds "ordinary" magnitudes; Hypothesis likes subnormals there, which are outside the
    # stated domain (|x| in {0} U [min_mag, max_mag]): they are flushed to zero
    ordinary = st.floats(min_value=-1e6, max_value=1e6, allow_nan=False).map(lambda x: 0.0 if abs(x) < min_mag else x)
    return st.one_of(st.sampled_from(EDGE_VALUES), gen, ordinary)


def moderate_values(lo=1e-3, hi=1e3, signed=True):
    """Non-zero values of moderate magnitude (arithmetic oracles: products must stay finite)."""
    mags = st.one_of(
        st.sampled_from([1.0, 2.0, 0.5, 3.0, 10.0, 0.25, 1.5, 7.0]),
        st.floats(min_value=lo, max_value=hi, allow_nan=False, allow_infinity=False),
    )
    if not signed:
        return mags
    return st.builds(lambda m, neg: -m if neg else m, mags, st.booleans())


def containers(elements, min_size=0, max_size=8):
    """(kind, python container) for list / tuple / ndarray float64."""
    import numpy

    lists = st.lists(elements, min_size=min_size, max_size=max_size)
    return st.one_of(
        lists.map(lambda l: ("list", l)),
        lists.map(lambda l: ("tuple", tuple(l))),
        lists.map(lambda l: ("ndarray", numpy.array(l, dtype=numpy.float64))),
    )


def as_container(kind, values):
    import numpy

    if kind == "list":
        return list(values)
    if kind == "tuple":
        return tuple(values)
    if kind == "ndarray":
        return numpy.array(list(values), dtype=numpy.float64)
    if kind == "ndarray_int":
        return numpy.array(list(values), dtype=numpy.int64)
    if kind == "ndarray_object":
        return numpy.array(list(values), dtype=object)
    if kind == "ndarray_f32":
        return numpy.array(list(values), dtype=numpy.float32)
    if kind == "ndarray_i32":
        return numpy.array([int(v) for v in values], dtype=numpy.int32)
    raise ValueError(kind)


CONTAINER_KINDS = ("list", "tuple", "ndarray")
