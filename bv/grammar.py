"""The unit-symbol grammar of the table (C06) and of rendered derived quantities (C20).

Symbol grammar:  [numerator] ['/' denominator],  side = factor ('.' factor)*,
factor = [numeric prefix] symbol [integer exponent >= 2];  '1' alone as numerator = pure reciprocal.
"""
import itertools
import re

SI_PREFIXES = {
    "Y": ("yotta", 1e24),
    "Z": ("zetta", 1e21),
    "E": ("exa", 1e18),
    "P": ("peta", 1e15),
    "T": ("tera", 1e12),
    "G": ("giga", 1e9),
    "M": ("mega", 1e6),
    "k": ("kilo", 1e3),
    "h": ("hecto", 1e2),
    "da": ("deca", 1e1),
    "d": ("deci", 1e-1),
    "c": ("centi", 1e-2),
    "m": ("milli", 1e-3),
    "u": ("micro", 1e-6),
    "n": ("nano", 1e-9),
    "p": ("pico", 1e-12),
    "f": ("femto", 1e-15),
    "a": ("atto", 1e-18),
}


def factor_readings(tok, whole, registered, name=""):
    """All readings (coef, unit, exp) of one factor token as registered units.

    Oil-field multipliers: 'M' = thousand and 'MM' = million in front of a registered symbol are read
    as such only when the row's registered *name* says so ('thousand cubic meters' for 'Mm3')."""
    cands = []
    m = re.match(r"^(\d+(?:\.\d+)?)(.*)$", tok)
    prefixes = [(1.0, tok)]
    if m and m.group(2):
        prefixes.append((float(m.group(1)), m.group(2)))
    lname = name.lower()
    if "thousand" in lname and tok.startswith("M") and not tok.startswith("MM") and len(tok) > 1:
        prefixes.append((1e3, tok[1:]))
    if "million" in lname and tok.startswith("MM") and len(tok) > 2:
        prefixes.append((1e6, tok[2:]))
    for coef, rest in prefixes:
        m2 = re.match(r"^(.*?)(\d+)$", rest)
        if m2 and m2.group(1) in registered and 2 <= int(m2.group(2)) <= 6:
            cands.append((coef, m2.group(1), int(m2.group(2))))
        if rest in registered and rest != whole:
            cands.append((coef, rest, 1))
    return cands


def decompose(sym, registered, name=""):
    """None if the symbol is outside the grammar, else a list of (sign, [readings]) per factor."""
    if sym.count("/") > 1 or any(ch in sym for ch in "()^* "):
        return None
    num, _, den = sym.partition("/")
    res = []
    for side, sign in ((num, 1), (den, -1)):
        if side == "" or (side == "1" and sign == 1):
            continue
        for tok in side.split("."):
            c = factor_readings(tok, sym, registered, name)
            if not c:
                return None
            res.append((sign, c))
    return res


def readings(sym, registered, name=""):
    """Every complete non-trivial reading of a symbol: list of [(coef, unit, signed exp)]."""
    # the name-based multiplier readings are only *additional* alternatives for symbols the plain
    # grammar already decomposes: they can excuse a row, never pull a new row into the check
    if not decompose(sym, registered, ""):
        return []
    d = decompose(sym, registered, name)
    out = []
    for choice in itertools.product(*[c for _, c in d]):
        comp = [(coef, u, e * sign) for (sign, _), (coef, u, e) in zip(d, choice)]
        if len(comp) == 1 and comp[0][2] == 1 and comp[0][0] == 1.0:
            continue
        out.append(comp)
    return out


def prefix_reading(sym, name, registered_names):
    """(prefix factor, base symbol) if sym is an SI-prefixed form of a registered symbol *and* its
    registered name starts with the prefix name; else None."""
    if any(ch in sym for ch in "./()^* "):
        return None
    for p, (pname, pf) in SI_PREFIXES.items():
        if sym.startswith(p) and len(sym) > len(p) and sym[len(p) :] in registered_names:
            if name.lower().startswith(pname):
                return pf, sym[len(p) :]
    return None


# ---------------------------------------------------------------------------------------------
# rendered derived quantities (C20)


class ParseError(Exception):
    pass


def parse_unit_string(s, atomic=r"[A-Za-z]+"):
    """'m2.kg/s2.K' -> {'m':2,'kg':1,'s':-2,'K':-1};  '' -> {};  '1/s' -> {'s':-1}.

    Canonical form only: '.' between factors, at most one '/', exponent suffix >= 2, '1/' for a pure
    reciprocal, no factor twice."""
    if s == "":
        return {}
    num, sep, den = s.partition("/")
    if "/" in den:
        raise ParseError("more than one '/' in %r" % s)
    out = {}

    def side(text, sign):
        if text == "":
            raise ParseError("empty side in %r" % s)
        for tok in text.split("."):
            m = re.fullmatch(r"(%s)(\d*)" % atomic, tok)
            if not m:
                raise ParseError("factor %r of %r is not symbol[exponent]" % (tok, s))
            if m.group(1) in out:
                raise ParseError("symbol %r twice in %r" % (m.group(1), s))
            if m.group(2) == "":
                e = 1
            else:
                e = int(m.group(2))
                if e < 2:
                    raise ParseError("exponent %r in %r" % (m.group(2), s))
            out[m.group(1)] = sign * e

    if num == "1":
        if not sep:
            raise ParseError("bare '1' in %r" % s)
    else:
        side(num, 1)
    if sep:
        side(den, -1)
    return out


def parse_name_string(s):
    """'length * (time) ** 2 / mass' -> [('length',1),('time',2),('mass',-1)]; '1 / x' for reciprocals."""
    if s == "":
        return []
    parts = s.split(" / ")
    if len(parts) > 2:
        raise ParseError("more than one ' / ' in %r" % s)
    out = []
    for i, p in enumerate(parts):
        if i == 0 and p == "1":
            if len(parts) == 1:
                raise ParseError("bare '1' in %r" % s)
            continue
        if p == "":
            raise ParseError("empty side in %r" % s)
        for f in p.split(" * "):
            m = re.fullmatch(r"\((.*)\) \*\* (\d+)", f)
            if m:
                e = int(m.group(2))
                if e < 2:
                    raise ParseError("exponent %d in %r" % (e, s))
                out.append((m.group(1), (1 if i == 0 else -1) * e))
            else:
                if f == "" or " ** " in f:
                    raise ParseError("factor %r in %r" % (f, s))
                out.append((f, 1 if i == 0 else -1))
    return out
