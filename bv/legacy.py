"""Legacy unit spellings (C16, also used as near-miss targets by C05).

The substitution pairs are an *independent copy* of what barril documents and its own tests pin
(test_legacy_unit.py): the oracle must not move together with the list under test.
"""
LEGACY_TO_CURRENT = [
    ("1000ft3", "Mcf"),
    ("1000m3", "Mm3"),
    ("M(ft3)", "MMcf"),
    ("M(m3)", "MMm3"),
    ("k(ft3)", "Mcf"),
    ("Ns/m", "N.s/m"),
    ("lbmole", "lbmol"),
    ("gmole", "gmol"),
]


def rewrite(unit):
    """reference rewrite: the substitution chain applied once, in list order"""
    out = unit
    for legacy, current in LEGACY_TO_CURRENT:
        out = out.replace(legacy, current)
    return out


def spellings(db):
    """{legacy spelling: current table symbol} for every table symbol that contains a current
    fragment, replacing all occurrences of that fragment by one legacy fragment."""
    out = {}
    ambiguous = set()
    for u in db.unit_to_unit_info:
        for legacy, current in LEGACY_TO_CURRENT:
            if current in u:
                l = u.replace(current, legacy)
                if l == u:
                    continue
                if l in out and out[l] != u:
                    ambiguous.add(l)
                out[l] = u
    for l in ambiguous:
        del out[l]
    return out
