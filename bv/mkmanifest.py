"""Regenerate /verif/MANIFEST.json from the property modules that exist (python -m bv.mkmanifest)."""
import importlib
import json
import os

HERE = os.path.dirname(os.path.abspath(__file__))
VERIF = os.path.dirname(HERE)
PY = "/venv/bin/python"

ALL = ["C%02d" % i for i in range(1, 21)]

TECHNIQUE = {
    "C01": "exhaustive enumeration of unit pairs/triples x Hypothesis-generated values; round-trip, path-independence and monotonicity oracles",
    "C02": "differential testing of every public conversion route against the database float conversion over enumerated unit pairs x generated values/containers",
    "C03": "Hypothesis-generated derived-quantity pairs checked against an independent dimensional-analysis model; metamorphic (a+b)-b",
    "C04": "Hypothesis-generated expression trees evaluated in barril and in an independent dimensional-analysis model; metamorphic commutativity/cancellation",
    "C05": "generated and enumerated incompatible operand pairs with a raises-and-nothing-changed oracle (snapshot differential), inside generated operation sequences",
    "C06": "exhaustive table sweep with a unit-symbol grammar parser as cross-row oracle, plus generated Scalar arithmetic form",
    "C07": "stateful (operation-sequence) Hypothesis testing with an immutability invariant over every cached quantity after every step",
    "C08": "enumerated unit pairs x constructed value classes against base-amount ordering oracle; generated object pools for ==/!= totality, symmetry, hash consistency",
    "C09": "exhaustive grid of operand type x container kind x operator x side with generated values against elementwise float oracle",
    "C10": "differential testing Array vs elementwise Scalar over generated quantities, containers and lengths",
    "C11": "stateful Hypothesis testing of FixedArray/Curve construction and operation chains with size invariants",
    "C12": "generated limit configurations, units, values and containers against an independent limit-predicate oracle; metamorphic permutation/unit re-expression",
    "C13": "stateful Hypothesis testing with deep snapshots of every pool member before/after every operation",
    "C14": "bounded-exhaustive and Hypothesis-generated registration histories compared step by step with a reference model; static sweep of shipped databases",
    "C15": "stateful Hypothesis testing: warm database vs freshly rebuilt database differential, registry snapshot around every read-only step",
    "C16": "exhaustive enumeration of legacy spellings x API entries with alias-equality oracle; idempotence/non-capture sweep over all symbols",
    "C17": "bounded-exhaustive and Hypothesis-generated operation histories compared step by step with a reference model including the callback log",
    "C18": "Hypothesis-generated fraction values checked against exact rational arithmetic; differential FractionScalar vs Scalar over enumerated unit pairs",
    "C19": "exhaustive enumeration of units/categories x construction forms with mutual-equality oracle; repr/eval round trip on generated values",
    "C20": "Hypothesis-generated derived quantities with a parse-back (round-trip) oracle on unit/category/type/name strings; exhaustive simple pairs",
}

LEVEL_TEXT = "Generated-input search (property-based testing) against an explicit oracle: every explored case agreed with the oracle; finite configuration spaces named in the evidence are enumerated completely, values/histories are sampled. No claim beyond the explored bounds."
LEVEL_NOTE = "Trusted: CPython/numpy float arithmetic, Hypothesis generation/shrinking, the reference models and tolerances stated in DESIGN.md section 4/5; absence of violations outside the explored bounds is not established."


def main():
    checks = []
    na = []
    for pid in ALL:
        path = os.path.join(HERE, "props", pid.lower() + ".py")
        if not os.path.exists(path):
            na.append({"property_id": pid, "reason": "check not built yet (planned in DESIGN.md section 5); the technique applies"})
            continue
        checks.append(
            {
                "property_id": pid,
                "quick_cmd": "%s -m bv.run %s --tier quick" % (PY, pid),
                "thorough_cmd": "%s -m bv.run %s --tier thorough" % (PY, pid),
                "evidence_file": "/verif/evidence/%s.json" % pid,
                "replay_cmd_template": "%s -m bv.run %s --replay {path}" % (PY, pid),
                "engine": "bv",
                "level_claimed": {"category": "exploration", "text": LEVEL_TEXT, "design_ref": "DESIGN.md section 5, %s" % pid},
                "level_note": LEVEL_NOTE,
                "technique": TECHNIQUE[pid],
            }
        )
    man = {
        "version": 1,
        "setup_cmd": "sh /verif/setup.sh",
        "hooks": {
            "guard": "BARRIL_VERIF",
            "enable": "no instrumentation of /repo is needed: every observation point is public API or a plain attribute; checks set BARRIL_VERIF=1 and import barril from /repo/src in a fresh interpreter",
            "baseline_off_cmd": "cd /repo && /venv/bin/python -m pytest -ra -q -p no:cacheprovider --timeout=900 --continue-on-collection-errors",
            "source_commits": [],
            "add_only": True,
        },
        "engines": [
            {
                "name": "bv",
                "path": "/verif/bv",
                "serves_properties": [c["property_id"] for c in checks],
                "kind_free_text": "Python property-based testing harness on Hypothesis 6.168: exhaustive enumeration of finite configuration spaces x generated values, generated operation histories with reference models, shrinking to JSON replay files",
            }
        ],
        "checks": checks,
        "not_applicable": na,
        "notes": "Checks import barril from $VERIF_REPO (default /repo) working tree in a fresh interpreter. VERIF_SEED selects the Hypothesis seed. Known findings: /verif/KNOWN_FINDINGS.txt.",
    }
    with open(os.path.join(VERIF, "MANIFEST.json"), "w") as f:
        json.dump(man, f, indent=1)
        f.write("\n")
    print("checks:", [c["property_id"] for c in checks])


if __name__ == "__main__":
    main()
