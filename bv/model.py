"""Independent magnitude / dimension models (DESIGN §4).

UnitModel: slope and offset of every unit relative to its quantity type's base unit, obtained only
from observable single-unit float conversions (what C01 validates exhaustively).  Nothing from
_MatchQuantities, _ConvertWithExp, string rendering or the caches feeds it.

DimModel: a physical amount is (mag, dims) with dims {quantity type -> int} and mag in base units.
"""
import math


class UnitModel:
    def __init__(self, db):
        self.db = db
        self.slope = {}
        self.offset = {}
        self.qt = {}
        self.base = {}
        for qt, infos in db.quantity_types.items():
            if not infos:
                continue
            b = infos[0].unit
            self.base[qt] = b
            for info in infos:
                u = info.unit
                o = db.Convert(qt, u, b, 0.0)
                s = db.Convert(qt, u, b, 1.0) - o
                self.slope[u] = s
                self.offset[u] = o
                self.qt[u] = qt

    def scale_only(self, u):
        return self.offset[u] == 0.0 and self.slope[u] != 0.0

    def units(self, qt):
        return [i.unit for i in self.db.quantity_types[qt]]

    def scale_units(self, qt):
        return [u for u in self.units(qt) if self.scale_only(u)]

    def conv(self, u, v, x):
        """Model conversion u->v of value x (affine)."""
        return (self.offset[u] + self.slope[u] * x - self.offset[v]) / self.slope[v]

    def conv_scale(self, u, v, x):
        """|terms| of the model conversion, for cancellation-safe tolerances (in unit v)."""
        return (abs(self.offset[u]) + abs(self.slope[u] * x) + abs(self.offset[v])) / abs(self.slope[v])


def dims_of_quantity(db, q):
    """{quantity type: exponent} of a barril Quantity, zero entries removed."""
    dims = {}
    for cat, (unit, exp) in q.GetCategoryToUnitAndExps().items():
        qt = db.GetCategoryQuantityType(cat)
        dims[qt] = dims.get(qt, 0) + exp
    return {k: v for k, v in dims.items() if v}


def mag_of(um, q, value):
    """Base-unit magnitude of `value` expressed in quantity q (scale-only composing units)."""
    mag = value
    try:
        for unit, exp in q.GetComposingUnitsJoiningExponents():
            mag = mag * um.slope[unit] ** exp
    except (OverflowError, ZeroDivisionError):
        return float("inf")
    return mag


def dims_mul(a, b, sign=1):
    out = dict(a)
    for k, v in b.items():
        out[k] = out.get(k, 0) + sign * v
    return {k: v for k, v in out.items() if v}


def relclose(a, b, rel=1e-9):
    if a == b:
        return True
    if not (math.isfinite(a) and math.isfinite(b)):
        return False
    return abs(a - b) <= rel * max(abs(a), abs(b))


def log_mag_of(um, q, value):
    """(sign, log10 |magnitude in base units|) without intermediate overflow/underflow; None for zero/non-finite"""
    if value == 0 or not math.isfinite(value):
        return None
    lg = math.log10(abs(value))
    for unit, exp in q.GetComposingUnitsJoiningExponents():
        lg += exp * math.log10(um.slope[unit])
    return (1 if value > 0 else -1, lg)
