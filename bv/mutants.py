"""Sensitivity self-test: every check must fire on realistic breaking edits (DESIGN §3.8).

  python -m bv.mutants make <PID> <name> <file under /repo> <<'EOF'   (old text, a line '=====', new text)
  python -m bv.mutants run [--tests] [--tier quick] [PID ...]           (exit 1 if a mutant is missed)

mutants/<PID>/<name>.diff       must make the PID check exit 1 (VIOLATION)
mutants/<PID>/neg_<name>.diff   negative control: behaviour the property allows; the check must stay green
Each mutant is applied to a scratch copy of /repo outside /repo and /verif, removed afterwards.
"""
import difflib
import json
import os
import shutil
import subprocess
import sys
import tempfile
import time

HERE = os.path.dirname(os.path.abspath(__file__))
VERIF = os.path.dirname(HERE)
MUT = os.path.join(VERIF, "mutants")
PY = "/venv/bin/python"


def make(pid, name, relfile):
    text = sys.stdin.read()
    old, new = text.split("\n=====\n")
    new = new.rstrip("\n") if not new.endswith("\n\n") else new
    old = old.strip("\n")
    new = new.strip("\n")
    src = open(os.path.join("/repo", relfile)).read()
    if src.count(old) != 1:
        raise SystemExit("old text occurs %d times in %s" % (src.count(old), relfile))
    dst = src.replace(old, new)
    diff = "".join(difflib.unified_diff(src.splitlines(True), dst.splitlines(True), "a/" + relfile, "b/" + relfile))
    d = os.path.join(MUT, pid)
    os.makedirs(d, exist_ok=True)
    with open(os.path.join(d, name + ".diff"), "w") as f:
        f.write(diff)
    print("wrote", os.path.join(d, name + ".diff"))


def scratch_copy():
    d = tempfile.mkdtemp(prefix="bvmut-")
    subprocess.check_call(["git", "-C", "/repo", "worktree", "add", "-q", "--detach", d + "/r", "HEAD"], stdout=subprocess.DEVNULL)
    # carry uncommitted edits of /repo too (checks must see the working tree)
    wd = subprocess.run(["git", "-C", "/repo", "diff", "HEAD"], capture_output=True, text=True).stdout
    if wd.strip():
        subprocess.run(["git", "-C", d + "/r", "apply"], input=wd, text=True, check=True)
    return d, d + "/r"


def drop_copy(d):
    subprocess.call(["git", "-C", "/repo", "worktree", "remove", "--force", d + "/r"], stdout=subprocess.DEVNULL, stderr=subprocess.DEVNULL)
    shutil.rmtree(d, ignore_errors=True)
    subprocess.call(["git", "-C", "/repo", "worktree", "prune"])


def run_one(pid, path, tier, with_tests, extra_pids=()):
    name = os.path.basename(path)[:-5]
    neg = name.startswith("neg_")
    d, tree = scratch_copy()
    try:
        r = subprocess.run(["git", "-C", tree, "apply", path], capture_output=True, text=True)
        if r.returncode != 0:
            return {"pid": pid, "mutant": name, "status": "PATCH-FAILED", "detail": r.stderr[-300:]}
        tests = None
        if with_tests:
            t = subprocess.run([PY, "-m", "pytest", "-q", "-p", "no:cacheprovider", "-x", "-n", "8", "src"], cwd=tree, capture_output=True, text=True, env=dict(os.environ, PYTHONPATH=tree + "/src", PYTHONDONTWRITEBYTECODE="1"))
            tests = "pass" if t.returncode == 0 else "FAIL"
        out = {}
        for p in (pid,) + tuple(extra_pids):
            t0 = time.time()
            c = subprocess.run([PY, "-m", "bv.run", p, "--tier", tier, "--no-evidence"], cwd=VERIF, capture_output=True, text=True, env=dict(os.environ, VERIF_REPO=tree))
            out[p] = (c.returncode, round(time.time() - t0, 1), [l for l in c.stdout.splitlines() if l.startswith(("VIOLATION", "HARNESS", "  ["))][:3])
        rc = out[pid][0]
        ok = (rc == 0) if neg else (rc == 1)
        return {"pid": pid, "mutant": name, "status": "ok" if ok else "MISSED" if not neg else "FALSE-ALARM", "rc": rc, "tests": tests, "wall": out[pid][1], "lines": out[pid][2], "others": {k: v[0] for k, v in out.items() if k != pid}}
    finally:
        drop_copy(d)


def run(argv):
    tier = "quick"
    with_tests = False
    pids = []
    it = iter(argv)
    only = None
    for a in it:
        if a == "--tests":
            with_tests = True
        elif a == "--tier":
            tier = next(it)
        elif a == "--only":
            only = next(it)
        else:
            pids.append(a.upper())
    if not pids:
        pids = sorted(os.listdir(MUT)) if os.path.isdir(MUT) else []
    bad = 0
    for pid in pids:
        d = os.path.join(MUT, pid)
        if not os.path.isdir(d):
            continue
        for f in sorted(os.listdir(d)):
            if not f.endswith(".diff"):
                continue
            if only and only not in f:
                continue
            r = run_one(pid, os.path.join(d, f), tier, with_tests)
            print(json.dumps(r))
            sys.stdout.flush()
            if r["status"] != "ok" or r.get("tests") == "FAIL":
                bad += 1
    sys.exit(1 if bad else 0)


if __name__ == "__main__":
    if sys.argv[1] == "make":
        make(sys.argv[2].upper(), sys.argv[3], sys.argv[4])
    else:
        run(sys.argv[2:])
