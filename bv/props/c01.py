"""C01 — conversion is invertible, path-independent and monotone for every unit pair."""
import math

from bv import core, env, gen
from bv.model import UnitModel
from bv.util import partition

PID = "C01"
RULE = (
    "Exhaustive enumeration of every quantity type and every ordered unit pair (u,v) (triples (u,v,w): all in "
    "thorough, Hypothesis-selected w offsets in quick) of the three self-built databases (POSC, POSC without "
    "categories, FillSimple), crossed with a fixed edge-value list and Hypothesis-generated value vectors "
    "(finite floats, |x| in {0} U [1e-30,1e30], values next to the affine offsets). Oracles: u->u returns the "
    "object itself; u->v->u and tobase/frombase round trips within 1e-12*S; u->w == u->v->w within 1e-12*S; "
    "order never swapped, strictly kept for clearly separated values; slope>0; the exponent-list form "
    "[(u,e)]->[(v,e)] (e = 2, 3, -2, scale-only units, negative values included) round-trips, keeps the sign and the order; Quantity.ConvertScalarValue(u->v) equals the database's number for every "
    "pair, also right after an Unknown-quantity lookup of the same target; Convert(u->v,x) equals the target's from-base "
    "applied to the source's to-base of the same database, exactly; a user database that reuses shipped symbols with "
    "other definitions is alive and converting next to the shipped ones (both orders), each answering from its own "
    "definitions. The same values handed over as one numpy array (the registered vectorised conversion) give the numbers of the float conversion for every ordered pair. With exponent 1 the exponent-list form equals the plain conversion for every unit, offsets and negative values included. Non-trivial = u!=v, at least one "
    "side has a conversion, x!=0; distinct key = (config, quantity type, u, v[, w])."
)
ASSUMPTIONS = [
    "CPython float arithmetic; tolerance 1e-12*S with S the sum of absolute terms of the conversion chain (measured worst case 2.6e-16*S)",
    "values bounded to |x|<=1e30",
]
BUDGET_S = {"quick": 150, "thorough": 1500}
CONFIGS = ("posc", "posc_nocat", "simple")
REL = 1e-12


def plan(tier, seed):
    specs = []
    nparts = {"posc": 8 if tier == "quick" else 14, "posc_nocat": 3 if tier == "quick" else 6, "simple": 1}
    for cfg in CONFIGS:
        for i in range(nparts[cfg]):
            specs.append({"config": cfg, "part": i, "nparts": nparts[cfg], "tier": tier, "seed": seed})
    specs.append({"config": "cross", "tier": tier, "seed": seed})
    return specs


# ---------------------------------------------------------------------------------------------


def _S_chain(um, units, values):
    """Sum of absolute terms of a chain of conversions u0->u1->...->un, expressed in the last unit."""
    tot = 0.0
    for u, x in zip(units, values):
        tot += abs(um.offset[u]) + abs(um.slope[u] * x)
    tot += abs(um.offset[units[-1]])
    return tot / abs(um.slope[units[-1]])


class Sweep:
    def __init__(self, ctx, cfg, db):
        self.ctx = ctx
        self.cfg = cfg
        self.db = db
        self.um = UnitModel(db)
        self.bad_units = set()
        self.unknown = None
        self._q = {}
        try:
            from barril.units import ObtainQuantity

            if "Unknown" in db.quantity_types and db.IsValidCategory("Unknown"):
                self.unknown = ObtainQuantity("<unknown>", "Unknown")
        except Exception:
            self.unknown = None

    def quantity_of(self, u):
        from barril.units import ObtainQuantity
        from barril.units.unit_database import UnitsError

        if u not in self._q:
            try:
                self._q[u] = ObtainQuantity(u)
            except (UnitsError, AssertionError):
                self._q[u] = None  # database without categories
        return self._q[u]

    # -- per unit ---------------------------------------------------------------------------
    def unit_checks(self, qt, values):
        ctx, db, um = self.ctx, self.db, self.um
        import numpy

        infos = db.quantity_types[qt]
        base = infos[0]
        for info in infos:
            u = info.unit
            s = um.slope[u]
            ctx.ev()
            if not (s > 0.0) or not math.isfinite(s):
                ctx.record("slope_not_positive:%s:%s:%s" % (self.cfg, qt, u), {"config": self.cfg, "qt": qt, "u": u, "kind": "slope"}, "unit %r of %r has slope %r to the base (must be a strictly increasing map)" % (u, qt, s))
                self.bad_units.add(u)
                continue
            # u -> u is exact, for every container kind
            for x in (values[0], 7, [1.5, values[1]], (2.5,), numpy.array([1.0, values[2]])):
                ctx.ev()
                got = db.Convert(qt, u, u, x)
                same = got is x or (not isinstance(x, (list, tuple, numpy.ndarray)) and type(got) is type(x) and got == x)
                if not same:
                    ctx.record("same_unit_not_exact:%s:%s" % (self.cfg, qt), {"config": self.cfg, "qt": qt, "u": u, "x": x, "kind": "same"}, "Convert(%r,%r,%r,%r) returned %r" % (qt, u, u, x, got))
            # raw function pair
            for x in sorted(values, key=_simplicity):
                ctx.ev()
                b = info.tobase(x)
                z = info.frombase(b)
                S = (abs(um.offset[u]) + abs(s * x) + abs(b)) / s
                if not core.close(z, x, S, REL):
                    ctx.record("unit_functions_not_inverse:%s:%s:%s" % (self.cfg, qt, u), {"config": self.cfg, "qt": qt, "u": u, "x": x, "kind": "inverse"}, "frombase(tobase(%r)) = %r for unit %r (%s); |err|=%.3g > %.3g" % (x, z, u, qt, abs(z - x), REL * S))
                    self.bad_units.add(u)
                    break

    # -- pairs and triples ------------------------------------------------------------------
    def row_checks(self, qt, u, values, w_offsets):
        """All v (and the selected w) for one source unit u. `values` sorted ascending, distinct."""
        ctx, db, um = self.ctx, self.db, self.um
        if u in self.bad_units:
            ctx.cls("rows_skipped_unit_already_reported")
            return
        Convert = db.Convert
        units = [i.unit for i in db.quantity_types[qt]]
        n = len(units)
        row = {v: [Convert(qt, u, v, x) for x in values] for v in units}
        ctx.ev(n * len(values))
        # Convert is nothing but the target's from-base applied to the source's to-base (of THIS database)
        tb = db.unit_to_unit_info[u].tobase
        for v in units:
            if v == u:
                continue
            fb = db.unit_to_unit_info[v].frombase
            for x, y in zip(values, row[v]):
                ctx.ev()
                w = fb(tb(x))
                if y != w and not (y != y and w != w):
                    ctx.record("convert_differs_from_unit_functions:%s:%s" % (self.cfg, qt), {"config": self.cfg, "qt": qt, "u": u, "v": v, "x": x, "kind": "rawpair"}, "Convert(%r,%r,%r,%r) = %r but frombase_%s(tobase_%s(x)) = %r" % (qt, u, v, x, y, v, u, w))
                    break
        su, ou = um.slope[u], um.offset[u]
        has_conv_u = db.unit_to_unit_info[u].tobase.__has_conversion__
        # unit names built at run time (new string objects that die after the call) are names like any other: the same
        # numbers as with the table's own string objects
        k0 = len(values) // 2
        for v in units:
            ctx.ev()
            y = Convert(qt, "".join(list(u)), "".join(list(v)), values[k0])
            if y != row[v][k0] and not (y != y and row[v][k0] != row[v][k0]):
                ctx.record("conversion_depends_on_the_identity_of_the_unit_strings:%s:%s" % (self.cfg, qt), {"config": self.cfg, "qt": qt, "u": u, "v": v, "x": values[k0], "kind": "tempstr"}, "Convert(%r, <new string %r>, <new string %r>, %r) = %r, with the table's strings %r" % (qt, u, v, values[k0], y, row[v][k0]))
                break
        # the same values handed over as one numpy array take another code path (the registered vectorised conversion):
        # the same numbers come out, so the array path is as invertible, path-independent and monotone as the float path
        import numpy

        for v in units:
            if v == u:
                continue
            sv, ov = um.slope[v], um.offset[v]
            got = Convert(qt, u, v, numpy.array(values, dtype=numpy.float64))
            for x, y, g in zip(values, row[v], list(got)):
                ctx.ev()
                if y != y or not core.close(float(g), y, (abs(ou) + abs(su * x) + abs(ov)) / sv + abs(y), REL):
                    if y != y and g != g:
                        continue
                    ctx.record("ndarray_conversion_differs_from_float:%s:%s" % (self.cfg, qt), {"config": self.cfg, "qt": qt, "u": u, "v": v, "x": x, "kind": "ndarray"}, "Convert(%r,%r,%r,ndarray) gives %r for %r, the float conversion %r" % (qt, u, v, float(g), x, y))
                    break
        # the Quantity route (cached to-base function of the source unit) gives the database's number, also right after
        # the Unknown quantity - which accepts any unit name and converts nothing - was asked for the same target
        qu = self.quantity_of(u)
        if qu is not None:
            k = len(values) // 2
            for v in units:
                if self.unknown is not None:
                    self.unknown.ConvertScalarValue(values[k], v)
                ctx.ev()
                g = qu.ConvertScalarValue(values[k], v)
                if g != row[v][k] and not (u == v and g == values[k]):
                    ctx.record("quantity_route_differs_from_database:%s:%s" % (self.cfg, qt), {"config": self.cfg, "qt": qt, "u": u, "v": v, "x": values[k], "kind": "qroute"}, "ObtainQuantity(%r).ConvertScalarValue(%r,%r) = %r, Convert gives %r" % (u, values[k], v, g, row[v][k]))
                    break
        for iv, v in enumerate(units):
            if v in self.bad_units:
                continue
            ys = row[v]
            sv, ov = um.slope[v], um.offset[v]
            nontriv = u != v and (has_conv_u or db.unit_to_unit_info[v].tobase.__has_conversion__)
            affine = ou != 0.0 or ov != 0.0
            # (iv) order
            prev_x = prev_y = None
            for x, y in zip(values, ys):
                if prev_x is not None:
                    ctx.ev()
                    Sy = (abs(ou) + abs(su * x) + abs(ov)) / sv + (abs(ou) + abs(su * prev_x) + abs(ov)) / sv
                    if y < prev_y:
                        if not core.close(y, prev_y, Sy, REL):
                            ctx.record("order_swapped:%s:%s" % (self.cfg, qt), {"config": self.cfg, "qt": qt, "u": u, "v": v, "x1": prev_x, "x2": x, "kind": "order"}, "%r<%r but Convert(%s->%s) gives %r > %r" % (prev_x, x, u, v, prev_y, y))
                    elif y == prev_y and (su / sv) * (x - prev_x) > 1e-9 * Sy:
                        ctx.record("order_merged:%s:%s" % (self.cfg, qt), {"config": self.cfg, "qt": qt, "u": u, "v": v, "x1": prev_x, "x2": x, "kind": "order"}, "clearly separated %r<%r both convert (%s->%s) to %r" % (prev_x, x, u, v, y))
                prev_x, prev_y = x, y
            # (ii)+(iii): u->v->w against u->w; w=u is the round trip
            ws = [u]
            if w_offsets is None:
                ws = units
            else:
                for r in w_offsets:
                    ws.append(units[(iv * 7 + r) % n])
            for w in ws:
                if w in self.bad_units:
                    continue
                direct = row[w] if w != u else values
                sw, ow = um.slope[w], um.offset[w]
                kind = "roundtrip" if w == u else "path"
                for x, y, d in zip(values, ys, direct):
                    z = Convert(qt, v, w, y)
                    ctx.ev()
                    S = (abs(ou) + abs(su * x) + 2 * abs(ov) + abs(sv * y) + abs(ow)) / sw + abs(d)
                    if not core.close(z, d, S, REL):
                        ctx.record(
                            "%s:%s:%s" % (kind, self.cfg, qt),
                            {"config": self.cfg, "qt": qt, "u": u, "v": v, "w": w, "x": x, "kind": kind},
                            "%s: Convert(%s->%s, Convert(%s->%s, %r)=%r) = %r, expected %r (|err|=%.3g > %.3g)" % (kind, v, w, u, v, x, y, z, d, abs(z - d), REL * S),
                        )
                        break
                if nontriv:
                    key = (self.cfg, qt, u, v, w)
                    if w == u or w_offsets is not None:
                        ctx.nontrivial(key, {"config": self.cfg, "qt": qt, "u": u, "v": v, "w": w, "values": values[:4], "u->v": ys[:4]} if (iv % 11 == 3 and len(ctx.samples) < 6) else None)
            if nontriv:
                ctx.cls("pairs_nontrivial")
                if affine:
                    ctx.cls("pairs_affine_involved")
                elif not has_conv_u:
                    ctx.cls("pairs_identity_to_scaled")
                else:
                    ctx.cls("pairs_scaled_to_scaled")


def exp_form_checks(sw, qt, u, partners):
    """The exponent-list form of Convert, [(u,e)] -> [(v,e)]: round trip, sign and order for e in 2, 3, -2
    (scale-only units; the form is defined through the unit ratio)."""
    ctx, db, um = sw.ctx, sw.db, sw.um
    if u in sw.bad_units:
        return
    vals = [-9.0, -4.0, 0.5, 3.0, 250.0]
    # with exponent 1 the list form is the plain conversion, for every unit (offsets included) and every sign
    for v in partners:
        if v in sw.bad_units:
            continue
        for x in vals + [-273.15, 0.0]:
            ctx.ev()
            y, w = db.Convert(qt, [(u, 1)], [(v, 1)], x), db.Convert(qt, u, v, x)
            if y != w and not (y != y and w != w):
                ctx.record("exponent_form_with_exponent_1_differs_from_plain_conversion:%s" % sw.cfg, {"config": sw.cfg, "qt": qt, "u": u, "v": v, "x": x, "e": 1, "kind": "expform"}, "Convert(%r,[(%r,1)],[(%r,1)],%r) = %r, Convert(%r,%r,%r,%r) = %r" % (qt, u, v, x, y, qt, u, v, x, w))
                break
    if um.offset[u] != 0:
        return
    for v in partners:
        if v == u or um.offset[v] != 0 or v in sw.bad_units:
            continue
        for e in (2, 3, -2):
            ys = []
            for x in vals:
                ctx.ev()
                try:
                    y = db.Convert(qt, [(u, e)], [(v, e)], x)
                    z = db.Convert(qt, [(v, e)], [(u, e)], y)
                except (OverflowError, ZeroDivisionError):
                    ys = None
                    break
                ys.append(y)
                case = {"config": sw.cfg, "qt": qt, "u": u, "v": v, "x": x, "e": e, "kind": "expform"}
                if not (math.isfinite(y) and y != 0):
                    continue
                if (y > 0) != (x > 0):
                    ctx.record("exponent_form_sign_changed:%s" % sw.cfg, case, "Convert(%r,[(%r,%d)],[(%r,%d)],%r) = %r (sign changed)" % (qt, u, e, v, e, x, y))
                    break
                if not core.close(z, x, abs(x), 1e-9):
                    ctx.record("exponent_form_roundtrip:%s" % sw.cfg, case, "exponent form %s^%d -> %s^%d -> back: %r came back as %r" % (u, e, v, e, x, z))
                    break
            if ys and all(math.isfinite(t) for t in ys):
                for (x1, y1), (x2, y2) in zip(zip(vals, ys), zip(vals[1:], ys[1:])):
                    if (x1 > 0) == (x2 > 0) and ((y1 > y2) if e > 0 else False):
                        ctx.record("exponent_form_order_swapped:%s" % sw.cfg, {"config": sw.cfg, "qt": qt, "u": u, "v": v, "x": x1, "e": e, "kind": "expform"}, "%r<%r but the exponent form (e=%d, %s->%s) gives %r > %r" % (x1, x2, e, u, v, y1, y2))
                        break
        ctx.cls("exponent_form_pairs")


def _simplicity(x):
    return (abs(math.log10(abs(x))) if x else 0.5, x < 0)


def _prep_values(vals):
    out = sorted(set(float(v) for v in vals if v != 0.0 or True))
    # -0.0 and 0.0 compare equal; keep one
    res = []
    for v in out:
        if not res or v != res[-1]:
            res.append(v)
    return res


def project_db():
    """A user database alive next to the shipped ones whose units reuse shipped symbols with other
    definitions (a 365-day year 'a' on a day base, a 'ft' of 0.5 m, a Celsius with another offset)."""
    from barril.units import UnitDatabase

    db = UnitDatabase()
    db.AddUnitBase("time", "day", "d")
    db.AddUnit("time", "year of 365 days", "a", "%f / 365.0", "%f * 365.0")
    db.AddUnit("time", "week", "wk", "%f / 7.0", "%f * 7.0")
    db.AddUnit("time", "second", "s", "%f * 86400.0", "%f / 86400.0")
    db.AddUnitBase("length", "meters", "m")
    db.AddUnit("length", "feet", "ft", "%f * 2.0", "%f / 2.0")
    db.AddUnit("length", "kilometers", "km", lambda x: x / 250.0, lambda x: x * 250.0)
    db.AddUnitBase("temperature", "Kelvin", "K")
    db.AddUnit("temperature", "Celsius", "degC", "%f - 100.0", "%f + 100.0")
    for qt in ("time", "length", "temperature"):
        db.AddCategory(qt, qt)
    return db


def run_cross_database(spec, ctx):
    """Two databases alive at once: the user database converts first, then the shipped table; every
    database must answer from its own definitions (and the other way round)."""
    vals = _prep_values([1.0, -2.5, 0.0, 365.25, 1e6, 3.0 + spec["seed"]])
    for order in (("project", "posc"), ("posc", "project"), ("project", "posc_nocat")):
        dbs = {}
        for name in order:
            dbs[name] = project_db() if name == "project" else env.new_db(name)
        for rnd in range(2):
            for name in order:
                db = dbs[name]
                with env.pushed(db):
                    sw = Sweep(ctx, "%s(next to %s)" % (name, "+".join(n for n in order if n != name)), db)
                    for qt in ("time", "length", "temperature"):
                        if qt not in db.quantity_types:
                            continue
                        sw.unit_checks(qt, vals)
                        for info in db.quantity_types[qt]:
                            sw.row_checks(qt, info.unit, vals, [1, 2])
                    ctx.cls("cross_database_sweeps")
    ctx.exhaustive["two databases alive at once sharing unit symbols (time, length, temperature), both orders"] = "all pairs"


def run_shard(spec, ctx):
    from hypothesis import given, strategies as st

    if spec.get("config") == "cross":
        run_cross_database(spec, ctx)
        return
    cfg = spec["config"]
    tier = spec["tier"]
    db = env.new_db(cfg)
    with env.pushed(db):
        sw = Sweep(ctx, cfg, db)
        items = []
        weights = []
        for qt in sorted(db.quantity_types):
            n = len(db.quantity_types[qt])
            for info in db.quantity_types[qt]:
                items.append((qt, info.unit))
                weights.append(n * n if tier == "thorough" else n)
        mine = partition(items, weights, spec["nparts"])[spec["part"]]
        my_qts = sorted(set(qt for qt, _ in mine))
        edge = _prep_values(gen.EDGE_VALUES)
        # per-unit checks (each quantity type handled by the shard owning its first unit)
        first_owner = {}
        for qt, u in items:
            first_owner.setdefault(qt, (qt, u))
        for qt in my_qts:
            if first_owner[qt] in mine:
                sw.unit_checks(qt, edge)
            else:
                # still need to know which units are already reported, without re-reporting
                saved = ctx.violations
                ctx.violations = {}
                n_ev = ctx.evaluations
                sw.unit_checks(qt, edge)
                ctx.violations = saved
                ctx.evaluations = n_ev
        ctx.exhaustive["unit pairs per quantity type"] = "all"
        ctx.exhaustive["unit triples per quantity type"] = "all" if tier == "thorough" else "sampled"
        # fixed edge list: all pairs; triples: all (thorough) / 2 offsets (quick)

        def sweep(values, w_offsets):
            for qt, u in mine:
                if ctx.out_of_time():
                    return
                sw.row_checks(qt, u, values, w_offsets)

        # exponent-list form: every unit with two partners (all partners in thorough)
        for k, (qt, u) in enumerate(mine):
            us = [i.unit for i in db.quantity_types[qt]]
            if len(us) < 2:
                continue
            iu = us.index(u)
            partners = us if tier == "thorough" else [us[(iu + 1) % len(us)], us[(iu + 1 + spec["seed"] + k) % len(us)]]
            exp_form_checks(sw, qt, u, partners)

        if tier == "thorough":
            # edge values in two halves to bound memory/time per row
            sweep(edge, None)
            n_vec, vec_len, offs = 6, 8, None
        else:
            sweep(edge, [1, 5])
            n_vec, vec_len, offs = 2, 8, "draw"

        @given(st.lists(gen.finite_values(), min_size=vec_len, max_size=vec_len), st.lists(st.integers(0, 1000), min_size=2, max_size=2))
        def generated(values, drawn):
            values = _prep_values(values)
            ctx.cls("generated_value_vectors")
            for x in values:
                ctx.cls("values_affine_neighbourhood" if any(abs(abs(x) - a) <= 1e-9 * a for a in gen._AFFINE) else "values_other")
            sweep(values, None if offs is None else drawn)

        core.hunt(ctx, lambda: generated, spec["seed"] * 1000 + spec["shard"], n_vec, shrink=False)
        if tier == "thorough":
            # every (u,v,w) of the owned rows was enumerated; count the non-trivial ones exactly
            cnt = 0
            for qt, u in mine:
                infos = db.quantity_types[qt]
                hu = db.unit_to_unit_info[u].tobase.__has_conversion__
                for i in infos:
                    if i.unit != u and (hu or i.tobase.__has_conversion__):
                        cnt += len(infos)
            ctx.nt_disjoint = cnt
            ctx.nt = set()


def replay(case, ctx):
    cfg = case["config"]
    if "next to" in cfg:
        run_cross_database({"seed": 1}, ctx)
        return ["%s: %s" % (k, v["msg"]) for k, v in ctx.violations.items()]
    db = env.new_db(cfg)
    with env.pushed(db):
        sw = Sweep(ctx, cfg, db)
        qt = case["qt"]
        kind = case["kind"]
        if kind == "rawpair":
            sw.unit_checks(qt, _prep_values(gen.EDGE_VALUES))
            sw.bad_units.discard(case["u"])
            sw.row_checks(qt, case["u"], _prep_values([case["x"], 1.0, 2.0]), [1])
        elif kind == "qroute":
            sw.unit_checks(qt, _prep_values(gen.EDGE_VALUES))
            sw.bad_units.discard(case["u"])
            sw.row_checks(qt, case["u"], _prep_values([case["x"], 1.0, 2.0]), [1])
        elif kind == "expform":
            sw.unit_checks(qt, _prep_values(gen.EDGE_VALUES))
            sw.bad_units.discard(case["u"])
            sw.bad_units.discard(case["v"])
            exp_form_checks(sw, qt, case["u"], [case["v"]])
        elif kind in ("slope", "inverse", "same"):
            vals = _prep_values(gen.EDGE_VALUES + ([case["x"]] if isinstance(case.get("x"), float) else []))
            sw.unit_checks(qt, vals)
        else:
            vals = [case[k] for k in ("x", "x1", "x2") if k in case]
            sw.unit_checks(qt, _prep_values(gen.EDGE_VALUES))
            sw.bad_units.discard(case["u"])
            sw.row_checks(qt, case["u"], _prep_values(vals), None)
    keep = lambda k: kind not in ("slope", "inverse") or k.endswith(":" + case["u"])
    return ["%s: %s" % (k, v["msg"]) for k, v in ctx.violations.items() if keep(k)]
