"""C02 — all conversion routes agree and keep physical value, category and type."""
import re
from collections import OrderedDict

from hypothesis import given, strategies as st

from bv import core, env, gen
from bv.model import UnitModel
from bv.util import partition

PID = "C02"
RULE = (
    "Differential: reference r = UnitDatabase.Convert(qt,u,v,float(x)) (validated by C01). Unit pairs (u,v) of one "
    "quantity type: all 37040 in thorough, every u with Hypothesis-drawn partner offsets in quick; categories "
    "sharing the type rotated per pair; Hypothesis-generated finite value vectors (+ ints); every route named in "
    "the statement is evaluated on the same (u,v,category,values) and compared elementwise within 1e-12*S: "
    "Scalar.GetValue, CreateCopy(unit=), ChangeScalars, Quantity.ConvertScalarValue/Convert, db.Convert by type "
    "and by category on float/int/list/tuple/ndarray(float64,int64) and in exponent form, exponent path e in "
    "{-2,-1,2,3} against the power law, Array.GetValues for list/tuple/ndarray/tuple-of-tuples/list-of-tuples, "
    "FixedArray.IndexAsScalar/ChangingIndex (Scalar with use_value_unit T/F, tuple, float; indexes from the front and from the end; also on an int64 ndarray), Array/FixedArray conversions asked again after the caller edited an earlier converted container, "
    "each pair preceded by a lookup through the Unknown quantity (which accepts any unit name and converts nothing), "
    "UnitSystemManager.ConvertToCurrent/ConvertScalarToCurrent with and without a current mapping and with an explicitly "
    "given other database; ragged tuple-of-tuples keep their row shape. Metadata: "
    "re-expressed objects keep category and quantity type. Default oracle: for every category and every unit of "
    "its type Scalar/FractionScalar(category, unit=v) carries Convert(default_unit->v, default_value). Own-unit: "
    "GetValue(own unit) returns the stored value for simple, derived and empty quantities. Second configuration: "
    "after the shipped table, a small project database that reuses its symbols with other factors is used in the "
    "same process and all its pairs x categories go through all routes (nothing may be remembered per symbol "
    "across databases); the same pairs go through every route of the shipped table before and after that sweep, and the sweep runs a second time afterwards. Targets that have a legacy spelling are also asked for in that spelling (GetValue, CreateCopy, ChangeScalars, Array / FixedArray routes, db.Convert): same numbers, category and type of the source kept; FixedArray.ChangingIndex also with a (value, unit) pair and use_value_unit=False. Quantities and objects obtained while a project database was current are used after the shipped one is current again (flat and nested containers, objects built on the quantity, copies with new values): the quantity's own database converts. Before the sweep some symbols are offered for registration once more with other formulas (refused): their conversions are the same afterwards. Non-trivial = u!=v, "
    "conversion not identity, x!=0, container non-empty; distinct key = (route, qt, u, v, category)."
)
ASSUMPTIONS = [
    "the database float conversion is the reference (C01 checks it)",
    "CreateCopy(unit=) on derived objects and FractionScalar on derived quantities are outside the statement",
    "exponent path with e != 1: float x only, scale-only units, x != 0 when e < 0",
]
BUDGET_S = {"quick": 150, "thorough": 1500}
REL = 1e-12


def _k(route):
    """root-cause key of a route: the container kind is part of the message, not of the key"""
    return re.sub(r"\[(list|tuple|ndarray)\]", "", route)


def plan(tier, seed):
    n = 8 if tier == "quick" else 16
    return [{"tier": tier, "seed": seed, "part": i, "nparts": n} for i in range(n)]


class Owner:
    pass


class Checker:
    def __init__(self, ctx, db):
        self.ctx = ctx
        self.db = db
        self.um = UnitModel(db)
        self.cats = {}
        for c in db.IterCategories():
            self.cats.setdefault(db.GetCategoryQuantityType(c), []).append(c)
        # current symbol -> its legacy spellings (an independent copy of the documented substitution list)
        from bv import legacy

        self.legacy_of = {}
        for l, cur in sorted(legacy.spellings(db).items()):
            self.legacy_of.setdefault(cur, []).append(l)

    def other_db(self):
        """a database other than the one under test (the shipped table for the project database and vice versa),
        alive at the same time and defining the shared symbols differently"""
        if not hasattr(self, "_other"):
            self._other = None
            try:
                self._other = variant_db() if len(self.db.unit_to_unit_info) > 100 else env.new_db("posc")
            except Exception:
                self._other = None
        return self._other

    # ------------------------------------------------------------------------------------------
    def cmp(self, route, case, got, want, S):
        """Elementwise comparison of a route's result with the reference."""
        ctx = self.ctx
        ctx.ev()
        try:
            got = list(got) if not isinstance(got, (int, float)) else [got]
        except TypeError:
            got = [got]
        if len(got) != len(want):
            ctx.record("route_length:%s" % _k(route), dict(case, route=route), "route %s returned %d values for %d inputs: %r" % (route, len(got), len(want), got))
            return
        for g, w, s in zip(got, want, S):
            try:
                g = float(g)
            except (TypeError, ValueError):
                ctx.record("route_not_a_number:%s" % _k(route), dict(case, route=route), "route %s returned %r" % (route, g))
                return
            if not core.close(g, w, s, REL):
                ctx.record("route_disagrees:%s" % _k(route), dict(case, route=route), "route %s gives %r, database float conversion %s->%s gives %r (|diff|=%.3g > %.3g) for case %r" % (route, g, case["u"], case["v"], w, abs(g - w), REL * s, case))
                return

    def meta(self, route, case, obj, cat, qt, unit=None):
        ctx = self.ctx
        ctx.ev()
        if obj.GetCategory() != cat or obj.GetQuantityType() != qt:
            ctx.record("metadata_changed:%s" % _k(route), dict(case, route=route), "route %s: re-expressed object has category %r / type %r, source had %r / %r" % (route, obj.GetCategory(), obj.GetQuantityType(), cat, qt))
        if unit is not None and obj.GetUnit() != unit:
            ctx.record("unit_wrong:%s" % _k(route), dict(case, route=route), "route %s: result unit %r, expected %r" % (route, obj.GetUnit(), unit))

    def run_route(self, route, case, fn):
        try:
            fn()
        except Exception as e:
            where = core.tree_frame(e)
            if where is None:
                raise
            self.ctx.record("route_raises:%s:%s" % (route, type(e).__name__), dict(case, route=route), "route %s raised %s: %s (case %r)" % (route, type(e).__name__, str(e)[:200], case))

    # ------------------------------------------------------------------------------------------
    def check_pair(self, case):
        """case: qt,u,v,cat,xs (list of floats, len>=2), ints (list of ints)"""
        import numpy

        from barril.units import Array, ChangeScalars, FixedArray, ObtainQuantity, Scalar
        from barril.units.unit_system_manager import UnitSystemManager

        ctx, db, um = self.ctx, self.db, self.um
        qt, u, v, cat = case["qt"], case["u"], case["v"], case["cat"]
        xs = [float(x) for x in case["xs"]]
        ints = [int(i) for i in case.get("ints", [3, -7])]
        Convert = db.Convert
        want = [Convert(qt, u, v, x) for x in xs]
        S = [um.conv_scale(u, v, x) + abs(w) for x, w in zip(xs, want)]
        wint = [Convert(qt, u, v, float(i)) for i in ints]
        Sint = [um.conv_scale(u, v, float(i)) + abs(w) for i, w in zip(ints, wint)]
        x0, w0, S0 = xs[:1], want[:1], S[:1]
        identity = um.slope[u] == um.slope[v] and um.offset[u] == um.offset[v]
        if u != v and not identity:
            for r in ("all_routes",):
                ctx.nontrivial((r, qt, u, v, cat), case if (hash((u, v)) % 97 == 0) else None)
            ctx.cls("pairs_nontrivial")
            if um.offset[u] != 0 or um.offset[v] != 0:
                ctx.cls("pairs_affine")
            if cat != qt:
                ctx.cls("category_differs_from_type_name")
        else:
            ctx.cls("pairs_identity_or_same")
        R = self.run_route
        # the Unknown quantity accepts any unit name and converts nothing; such a lookup before the real conversions
        # must leave no trace in them (nothing may be remembered per unit name)
        if "Unknown" in self.db.quantity_types:
            qu = ObtainQuantity("<unknown>", "Unknown")
            ctx.ev()
            for tgt in (v, u):
                got_u = qu.ConvertScalarValue(xs[0], tgt)
                if got_u != xs[0]:
                    ctx.record("unknown_quantity_conversion_not_identity", dict(case, route="unknown"), "ObtainQuantity('<unknown>','Unknown').ConvertScalarValue(%r,%r) = %r" % (xs[0], tgt, got_u))
        q_src = ObtainQuantity(u, cat)

        # --- Scalar routes
        def scalar_routes():
            s = Scalar(xs[0], u, cat)
            self.cmp("Scalar.GetValue", case, s.GetValue(v), w0, S0)
            c = s.CreateCopy(unit=v)
            self.cmp("Scalar.CreateCopy(unit)", case, c.GetValue(), w0, S0)
            self.meta("Scalar.CreateCopy(unit)", case, c, cat, qt, v)
            c2 = s.CreateCopy(value=xs[1], unit=v)
            self.cmp("Scalar.CreateCopy(value,unit)", case, c2.GetValue(), xs[1:2], S[1:2])
            self.meta("Scalar.CreateCopy(value,unit)", case, c2, cat, qt, v)
            o = Owner()
            o.a = s
            o.b = s
            ChangeScalars(o, a=(None, v), b=(xs[1], v))
            self.cmp("ChangeScalars(None,unit)", case, o.a.GetValue(), w0, S0)
            self.meta("ChangeScalars(None,unit)", case, o.a, cat, qt, v)
            self.cmp("ChangeScalars(value,unit)", case, o.b.GetValue(), xs[1:2], S[1:2])
            self.meta("ChangeScalars(value,unit)", case, o.b, cat, qt, v)

        R("Scalar", case, scalar_routes)

        # --- Quantity routes
        def quantity_routes():
            self.cmp("Quantity.ConvertScalarValue", case, [q_src.ConvertScalarValue(x, v) for x in xs], want, S)
            self.cmp("Quantity.Convert(float)", case, [q_src.Convert(x, v) for x in xs], want, S)
            self.cmp("Quantity.Convert(list)", case, q_src.Convert(list(xs), v), want, S)
            self.cmp("Quantity.Convert(ndarray)", case, q_src.Convert(numpy.array(xs), v), want, S)

        R("Quantity", case, quantity_routes)

        # --- database routes
        def db_routes():
            for name, key in (("type", qt), ("category", cat)):
                self.cmp("db.Convert[%s](float)" % name, case, [Convert(key, u, v, x) for x in xs], want, S)
                self.cmp("db.Convert[%s](int)" % name, case, [Convert(key, u, v, i) for i in ints], wint, Sint)
                self.cmp("db.Convert[%s](list)" % name, case, Convert(key, u, v, list(xs)), want, S)
                got = Convert(key, u, v, tuple(xs))
                self.cmp("db.Convert[%s](tuple)" % name, case, got, want, S)
                self.cmp("db.Convert[%s](ndarray)" % name, case, Convert(key, u, v, numpy.array(xs, dtype=numpy.float64)), want, S)
                self.cmp("db.Convert[%s](ndarray int64)" % name, case, Convert(key, u, v, numpy.array(ints, dtype=numpy.int64)), wint, Sint)
                self.cmp("db.Convert[%s](list of int)" % name, case, Convert(key, u, v, list(ints)), wint, Sint)
                # numpy number scalars are numbers (they turn up inside tuples the library builds itself)
                self.cmp("db.Convert[%s](numpy.int64)" % name, case, [Convert(key, u, v, numpy.int64(i)) for i in ints], wint, Sint)
                self.cmp("db.Convert[%s](numpy.float64)" % name, case, [Convert(key, u, v, numpy.float64(x)) for x in xs], want, S)
                self.cmp("db.Convert[%s](tuple of numpy.int64)" % name, case, Convert(key, u, v, tuple(numpy.int64(i) for i in ints)), wint, Sint)
                self.cmp("db.Convert[%s](exponent form,float)" % name, case, [Convert(key, [(u, 1)], [(v, 1)], x) for x in xs], want, S)
                self.cmp("db.Convert[%s](exponent form,list)" % name, case, Convert(key, [(u, 1)], [(v, 1)], list(xs)), want, S)
                self.cmp("db.Convert[%s](exponent form,ndarray)" % name, case, Convert(key, [(u, 1)], [(v, 1)], numpy.array(xs)), want, S)

        R("db.Convert", case, db_routes)

        # --- exponent path proper: power law, scale-only units
        def exponent_routes():
            if not (um.scale_only(u) and um.scale_only(v)):
                return
            ratio = um.slope[u] / um.slope[v]
            for e in (-2, -1, 2, 3):
                for x in xs:
                    if x == 0.0 and e < 0:
                        continue
                    try:
                        w = x * ratio ** e
                    except OverflowError:
                        continue
                    if not (1e-280 < abs(w) < 1e280) or not (1e-100 < abs(x) < 1e100):
                        continue
                    ctx.ev()
                    g = Convert(qt, [(u, e)], [(v, e)], x)
                    if not core.close(g, w, abs(w), 1e-9):
                        ctx.record("route_disagrees:db.Convert(exponent %d)" % e, dict(case, route="exp", e=e, x=x), "Convert(%r,[(%r,%d)],[(%r,%d)],%r) = %r, power law gives %r" % (qt, u, e, v, e, x, g, w))
                        return

        R("db.Convert(exponent)", case, exponent_routes)

        # --- the target unit written in a legacy spelling: same numbers, and the source's category is kept (the
        # spelling is resolved inside the source's category, not through the default category of the unit)
        def legacy_target_routes():
            for lv in self.legacy_of.get(v, [])[:2]:
                ctx.cls("legacy_spelled_target")
                s = Scalar(xs[0], u, cat)
                self.cmp("Scalar.GetValue(legacy spelling)", case, s.GetValue(lv), w0, S0)
                c = s.CreateCopy(unit=lv)
                self.cmp("Scalar.CreateCopy(unit=legacy spelling)", case, c.GetValue(), w0, S0)
                self.meta("Scalar.CreateCopy(unit=legacy spelling)", case, c, cat, qt, v)
                o = Owner()
                o.a = s
                ChangeScalars(o, a=(None, lv))
                self.cmp("ChangeScalars(None,legacy spelling)", case, o.a.GetValue(), w0, S0)
                self.meta("ChangeScalars(None,legacy spelling)", case, o.a, cat, qt, v)
                a = Array(list(xs), u, cat)
                self.cmp("Array.GetValues(legacy spelling)", case, a.GetValues(lv), want, S)
                ca = a.CreateCopy(unit=lv)
                self.cmp("Array.CreateCopy(unit=legacy spelling)", case, ca.GetValues(), want, S)
                self.meta("Array.CreateCopy(unit=legacy spelling)", case, ca, cat, qt, v)
                fa = FixedArray(len(xs), list(xs), u, cat)
                r = fa.ChangingIndex(0, (xs[-1], lv))
                self.cmp("FixedArray.ChangingIndex((value, legacy spelling))", case, list(r.GetValues()), [xs[-1]] + want[1:], [abs(xs[-1])] + S[1:])
                self.meta("FixedArray.ChangingIndex((value, legacy spelling))", case, r, cat, qt, v)
                si = fa.IndexAsScalar(0, ObtainQuantity(lv, cat))
                self.cmp("FixedArray.IndexAsScalar(quantity in legacy spelling)", case, si.GetValue(), w0, S0)
                self.meta("FixedArray.IndexAsScalar(quantity in legacy spelling)", case, si, cat, qt, v)
                self.cmp("db.Convert(legacy spelling)", case, [Convert(cat, u, lv, x) for x in xs], want, S)

        R("legacy target", case, legacy_target_routes)

        # --- Array routes
        def array_routes():
            for kind in ("list", "tuple", "ndarray"):
                a = Array(gen.as_container(kind, xs), u, cat)
                self.cmp("Array[%s].GetValues" % kind, case, a.GetValues(v), want, S)
                c = a.CreateCopy(unit=v)
                self.cmp("Array[%s].CreateCopy(unit)" % kind, case, c.GetValues(), want, S)
                self.meta("Array[%s].CreateCopy(unit)" % kind, case, c, cat, qt, v)
                # what the caller does to a converted container (or to a copy's values) is the caller's business:
                # the same request asked again still gives the database's numbers
                # (in its own unit an Array hands out the container it was given, which stays the caller's)
                if kind != "tuple" and v != u:
                    for got in (a.GetValues(v), a.CreateCopy(unit=v).GetValues()):
                        for j in range(len(got)):
                            got[j] = -7.0
                    # (for a unit with the same factor the library hands out the Array's own container, as it does for
                    # the own unit: the oracle is therefore the conversion of what the Array holds *now*)
                    now = [float(t) for t in a.GetValues()]
                    want_now = [Convert(qt, u, v, t) for t in now]
                    S_now = [um.conv_scale(u, v, t) + abs(w) for t, w in zip(now, want_now)]
                    self.cmp("Array[%s].GetValues after the caller edited an earlier result" % kind, case, a.GetValues(v), want_now, S_now)
                    self.cmp("Array[%s].CreateCopy(unit) after the caller edited an earlier result" % kind, case, a.CreateCopy(unit=v).GetValues(), want_now, S_now)
            pairs = [(xs[i], xs[(i + 1) % len(xs)]) for i in range(len(xs))]
            flat_w = [w for p in pairs for w in (want[xs.index(p[0])], want[xs.index(p[1])])]
            flat_S = [s for p in pairs for s in (S[xs.index(p[0])], S[xs.index(p[1])])]
            for kind, cont in (("tuple-of-tuples", tuple(pairs)), ("list-of-tuples", list(pairs))):
                a = Array(cont, u, cat)
                got = a.GetValues(v)
                ctx.ev()
                if type(got) is not type(cont) or any(not isinstance(t, tuple) or len(t) != 2 for t in got):
                    ctx.record("route_shape:Array[%s].GetValues" % kind, dict(case, route=kind), "Array of %s converted to %r" % (kind, got))
                    continue
                self.cmp("Array[%s].GetValues" % kind, case, [g for t in got for g in t], flat_w, flat_S)
            # rows of different lengths keep their shape, position by position
            if len(xs) >= 3:
                ragged = [(xs[0],), (xs[1], xs[2]), (xs[2], xs[0], xs[1])]
                rw = [[want[0]], [want[1], want[2]], [want[2], want[0], want[1]]]
                rS = [[S[0]], [S[1], S[2]], [S[2], S[0], S[1]]]
                for kind, cont in (("ragged tuple-of-tuples", tuple(ragged)), ("ragged list-of-tuples", list(ragged))):
                    for how, got in (("GetValues", Array(cont, u, cat).GetValues(v)), ("CreateCopy(unit)", Array(cont, u, cat).CreateCopy(unit=v).GetValues())):
                        ctx.ev()
                        if len(got) != 3 or [len(t) for t in got] != [1, 2, 3]:
                            ctx.record("route_shape:Array[ragged].%s" % how, dict(case, route=kind), "Array of %s %r converted to %r (row lengths changed)" % (kind, cont, got))
                            continue
                        for t, wrow, srow in zip(got, rw, rS):
                            self.cmp("Array[%s].%s" % (kind, how), case, list(t), wrow, srow)

        R("Array", case, array_routes)

        # --- FixedArray routes
        def fixed_routes():
            n = len(xs)
            q_dst = ObtainQuantity(v, cat)
            for kind in ("list", "tuple", "ndarray"):
                fa = FixedArray(n, gen.as_container(kind, xs), u, cat)
                self.cmp("FixedArray[%s].GetValues" % kind, case, fa.GetValues(v), want, S)
                if kind != "tuple" and v != u:
                    got = fa.GetValues(v)
                    keep = list(got)
                    for j in range(len(got)):
                        got[j] = -7.0
                    if [float(t) for t in fa.GetValues()] != [float(t) for t in xs]:
                        # same factor: the container handed out is the FixedArray's own; put the amounts back
                        for j in range(len(got)):
                            got[j] = keep[j]
                for i in range(n):
                    s = fa.IndexAsScalar(i, q_dst)
                    self.cmp("FixedArray[%s].IndexAsScalar" % kind, case, s.GetValue(), want[i : i + 1], S[i : i + 1])
                    self.meta("FixedArray[%s].IndexAsScalar" % kind, case, s, cat, qt, v)
                    s = fa.IndexAsScalar(i - n, q_dst)
                    self.cmp("FixedArray[%s].IndexAsScalar(negative index)" % kind, case, s.GetValue(), want[i : i + 1], S[i : i + 1])
                y = xs[-1]
                # elements may be addressed from the end as well
                rn = fa.ChangingIndex(-n, Scalar(y, v, cat), use_value_unit=True)
                self.cmp("FixedArray[%s].ChangingIndex(-n,Scalar,use_value_unit=True)" % kind, case, list(rn.GetValues()), [y] + want[1:], [abs(y)] + S[1:])
                rn = fa.ChangingIndex(-1, (y, v))
                self.cmp("FixedArray[%s].ChangingIndex(-1,tuple)" % kind, case, list(rn.GetValues()), want[:-1] + [y], S[:-1] + [abs(y)])
                rn = fa.ChangingIndex(-1, Scalar(want[0], v, cat), use_value_unit=False)
                backn = Convert(qt, v, u, want[0])
                self.cmp("FixedArray[%s].ChangingIndex(-1,Scalar,use_value_unit=False)" % kind, case, list(rn.GetValues()), xs[:-1] + [backn], [abs(x) for x in xs[:-1]] + [um.conv_scale(v, u, want[0]) + abs(backn)])
                # Scalar given in v, result adopts the Scalar's unit: all other elements are re-expressed in v
                r1 = fa.ChangingIndex(0, Scalar(y, v, cat), use_value_unit=True)
                self.cmp("FixedArray[%s].ChangingIndex(Scalar,use_value_unit=True)" % kind, case, list(r1.GetValues())[1:], want[1:], S[1:])
                self.cmp("FixedArray[%s].ChangingIndex(Scalar,use_value_unit=True)[i]" % kind, case, list(r1.GetValues())[:1], [y], [abs(y)])
                self.meta("FixedArray[%s].ChangingIndex(Scalar,use_value_unit=True)" % kind, case, r1, cat, qt, v)
                # Scalar given in u while the array is in v... use the reverse: array keeps u, new value converted from v... skip
                # use_value_unit=False: array unit kept (u); the supplied amount y[v] is converted v->u
                r2 = fa.ChangingIndex(0, Scalar(want[0], v, cat), use_value_unit=False)
                self.cmp("FixedArray[%s].ChangingIndex(Scalar,use_value_unit=False)" % kind, case, list(r2.GetValues())[1:], xs[1:], [abs(x) for x in xs[1:]])
                back = Convert(qt, v, u, want[0])
                self.cmp("FixedArray[%s].ChangingIndex(Scalar,use_value_unit=False)[i]" % kind, case, list(r2.GetValues())[:1], [back], [um.conv_scale(v, u, want[0]) + abs(back)])
                self.meta("FixedArray[%s].ChangingIndex(Scalar,use_value_unit=False)" % kind, case, r2, cat, qt, u)
                # (value, unit) pair with use_value_unit=False: the array keeps u, the pair's amount is converted v->u
                r2p = fa.ChangingIndex(0, (want[0], v), use_value_unit=False)
                self.cmp("FixedArray[%s].ChangingIndex(tuple,use_value_unit=False)" % kind, case, list(r2p.GetValues())[1:], xs[1:], [abs(x) for x in xs[1:]])
                self.cmp("FixedArray[%s].ChangingIndex(tuple,use_value_unit=False)[i]" % kind, case, list(r2p.GetValues())[:1], [back], [um.conv_scale(v, u, want[0]) + abs(back)])
                self.meta("FixedArray[%s].ChangingIndex(tuple,use_value_unit=False)" % kind, case, r2p, cat, qt, u)
                r3 = fa.ChangingIndex(0, (y, v))
                self.cmp("FixedArray[%s].ChangingIndex(tuple)" % kind, case, list(r3.GetValues())[1:], want[1:], S[1:])
                self.cmp("FixedArray[%s].ChangingIndex(tuple)[i]" % kind, case, list(r3.GetValues())[:1], [y], [abs(y)])
                self.meta("FixedArray[%s].ChangingIndex(tuple)" % kind, case, r3, cat, qt, v)
                r4 = fa.ChangingIndex(n - 1, y)
                self.cmp("FixedArray[%s].ChangingIndex(float)" % kind, case, list(r4.GetValues()), xs[:-1] + [y], [abs(x) for x in xs[:-1]] + [abs(y)])
                self.meta("FixedArray[%s].ChangingIndex(float)" % kind, case, r4, cat, qt, u)

        R("FixedArray", case, fixed_routes)

        # --- FixedArray backed by an integer numpy array: a new non-integral element must not be truncated
        def fixed_int_routes():
            import numpy

            iv = [int(i) for i in ints[:2]] + [3]
            fa = FixedArray(3, numpy.array(iv, dtype=numpy.int64), u, cat)
            y = 2.5
            for label, r in (
                ("float", fa.ChangingIndex(1, y)),
                ("tuple", fa.ChangingIndex(1, (y, u))),
                ("Scalar,use_value_unit=False", fa.ChangingIndex(1, Scalar(y, u, cat), use_value_unit=False)),
                ("Scalar,use_value_unit=True", fa.ChangingIndex(1, Scalar(y, u, cat), use_value_unit=True)),
            ):
                wantv = [float(iv[0]), y, float(iv[2])]
                self.cmp("FixedArray[ndarray int64].ChangingIndex(%s)" % label, case, [float(t) for t in r.GetValues()], wantv, [abs(t) + 1.0 for t in wantv])
            back = Convert(qt, v, u, want[0])
            r = fa.ChangingIndex(0, Scalar(want[0], v, cat), use_value_unit=False)
            self.cmp("FixedArray[ndarray int64].ChangingIndex(Scalar in v,use_value_unit=False)", case, [float(r.GetValues()[0])], [back], [um.conv_scale(v, u, want[0]) + abs(back)])
            g = fa.GetValues(v)
            self.cmp("FixedArray[ndarray int64].GetValues", case, g, [Convert(qt, u, v, float(t)) for t in iv], [um.conv_scale(u, v, float(t)) + 1.0 for t in iv])

        if abs(ints[0]) < 2**40 and abs(ints[1]) < 2**40:
            R("FixedArray(int64)", case, fixed_int_routes)

        # --- unit system manager
        def usm_routes():
            m = UnitSystemManager()
            got = m.ConvertToCurrent(cat, u, xs[0])
            ctx.ev()
            if got != (xs[0], u):
                ctx.record("route_disagrees:ConvertToCurrent(no current)", dict(case, route="usm-none"), "ConvertToCurrent without a current system returned %r for (%r,%r)" % (got, xs[0], u))
            s0 = m.ConvertScalarToCurrent(Scalar(xs[0], u, cat))
            self.cmp("ConvertScalarToCurrent(no current)", case, s0.GetValue(), x0, [abs(xs[0])])
            self.meta("ConvertScalarToCurrent(no current)", case, s0, cat, qt, u)
            m.AddUnitSystem("sys", "cap", {cat: v, "__other__": "x"})
            val, unit = m.ConvertToCurrent(cat, u, xs[0])
            self.cmp("ConvertToCurrent", case, val, w0, S0)
            ctx.ev()
            if unit != v:
                ctx.record("unit_wrong:ConvertToCurrent", dict(case, route="usm"), "ConvertToCurrent returned unit %r, current default is %r" % (unit, v))
            s1 = m.ConvertScalarToCurrent(Scalar(xs[0], u, cat))
            self.cmp("ConvertScalarToCurrent", case, s1.GetValue(), w0, S0)
            self.meta("ConvertScalarToCurrent", case, s1, cat, qt, v)
            # the default unit of the current system is changed after a conversion was made: the next conversion of the
            # same (category, source unit) goes to the new default unit
            m.GetCurrent().SetDefaultUnit(cat, u)
            g_same = m.ConvertToCurrent(cat, u, xs[0])
            ctx.ev()
            if tuple(g_same) != (xs[0], u):
                ctx.record("route_disagrees:ConvertToCurrent(after SetDefaultUnit)", dict(case, route="usm-setdefault"), "after SetDefaultUnit(%r,%r) ConvertToCurrent(%r,%r,%r) returned %r" % (cat, u, cat, u, xs[0], g_same))
            third = [i.unit for i in db.quantity_types[qt] if i.unit not in (u, v)]
            if third:
                w3 = third[len(u) % len(third)]
                m.GetCurrent().SetDefaultUnit(cat, w3)
                g3 = m.ConvertToCurrent(cat, u, xs[0])
                want3 = Convert(qt, u, w3, xs[0])
                self.cmp("ConvertToCurrent(after SetDefaultUnit to a third unit)", case, g3[0], [want3], [um.conv_scale(u, w3, xs[0]) + abs(want3)])
                if g3[1] != w3:
                    ctx.record("unit_wrong:ConvertToCurrent(after SetDefaultUnit)", dict(case, route="usm-setdefault"), "ConvertToCurrent returned unit %r, the current default is %r" % (g3[1], w3))
                s3 = m.ConvertScalarToCurrent(Scalar(xs[0], u, cat))
                self.cmp("ConvertScalarToCurrent(after SetDefaultUnit to a third unit)", case, s3.GetValue(), [want3], [um.conv_scale(u, w3, xs[0]) + abs(want3)])
            m.GetCurrent().SetDefaultUnit(cat, v)
            g_back = m.ConvertToCurrent(cat, u, xs[0])
            self.cmp("ConvertToCurrent(after SetDefaultUnit back)", case, g_back[0], w0, S0)
            s_back = m.ConvertScalarToCurrent(Scalar(xs[0], u, cat))
            self.cmp("ConvertScalarToCurrent(after SetDefaultUnit back)", case, s_back.GetValue(), w0, S0)
            # an explicitly given database decides the numbers (it may define the units differently from the singleton)
            other = self.other_db()
            if other is not None and qt in other.quantity_types and u in other.unit_to_unit_info and v in other.unit_to_unit_info and other.IsValidCategory(cat) and other.unit_to_unit_info[u].quantity_type == qt == other.unit_to_unit_info[v].quantity_type and other.GetCategoryQuantityType(cat) == qt:
                wo = other.Convert(qt, u, v, xs[0])
                So = [abs(wo) + abs(xs[0]) * 1e3 + 1e3]
                g1 = m.ConvertToCurrent(cat, u, xs[0], other)
                self.cmp("ConvertToCurrent(unit_database=other)", case, g1[0], [wo], So)
                g2 = m.ConvertScalarToCurrent(Scalar(xs[0], u, cat), other)
                self.cmp("ConvertScalarToCurrent(unit_database=other)", case, g2.GetValue(), [wo], So)
                g3 = m.ConvertScalarToCurrent(Scalar(xs[0], u, cat), unit_database=other)
                self.cmp("ConvertScalarToCurrent(unit_database=other)", case, g3.GetValue(), [wo], So)
                ctx.cls("manager_routes_with_explicit_other_database")
            # a system that does not map this category leaves the amount unchanged
            m2 = UnitSystemManager()
            m2.AddUnitSystem("sys", "cap", {"__other__": "x"})
            got = m2.ConvertToCurrent(cat, u, xs[0])
            ctx.ev()
            if got != (xs[0], u):
                ctx.record("route_disagrees:ConvertToCurrent(category not mapped)", dict(case, route="usm-unmapped"), "ConvertToCurrent returned %r" % (got,))

        R("UnitSystemManager", case, usm_routes)

    # ------------------------------------------------------------------------------------------
    def check_default(self, case):
        """Object created from a category default in a non-default unit carries the default amount."""
        from barril.units import FractionScalar, Scalar

        ctx, db, um = self.ctx, self.db, self.um
        cat, v = case["cat"], case["v"]
        info = db.GetCategoryInfo(cat)
        qt = info.quantity_type
        du, dv = info.default_unit, info.default_value
        want = db.Convert(qt, du, v, float(dv))
        S = um.conv_scale(du, v, float(dv)) + abs(want)
        if v != du and dv != 0:
            ctx.nontrivial(("default", cat, v), case)
        for name, cls in (("Scalar", Scalar), ("FractionScalar", FractionScalar)):

            def f():
                from barril.units import ObtainQuantity

                q = ObtainQuantity(v, cat)
                forms = [("(category,unit=v)", cls(cat, unit=v)), ("(quantity)", cls(q))]
                if cls is Scalar:  # FractionScalar.CreateWithQuantity requires a value
                    forms.append(("CreateWithQuantity(quantity)", cls.CreateWithQuantity(q)))
                for form, obj in forms:
                    ctx.ev()
                    got = float(obj.GetValue())
                    if not core.close(got, want, S, REL) or obj.GetUnit() != v or obj.GetCategory() != cat:
                        ctx.record("default_amount_wrong:%s%s" % (name, form), dict(case, route=name), "%s%s with category %r and unit %r = %r; category default is %r %s = %r %s" % (name, form, cat, v, obj, dv, du, want, v))
                obj = cls(cat)
                ctx.ev()
                if float(obj.GetValue()) != float(dv) or obj.GetUnit() != du:
                    ctx.record("default_amount_wrong:%s(category)" % name, dict(case, route=name), "%s(%r) = %r; category default is %r %s" % (name, cat, obj, dv, du))

            self.run_route("default:%s" % name, case, f)

    def check_own_unit(self, case):
        """GetValue(own unit) returns the stored value unchanged: simple, derived, empty."""
        import numpy

        from barril.units import Array, FixedArray, FractionScalar, Quantity, Scalar
        from barril.basic.fraction import FractionValue

        ctx = self.ctx
        d = case["d"]  # cat -> [unit, exp]; {} = empty
        x = case["x"]
        xs = [x, case.get("y", 2.0)]
        if not d:
            q = Quantity.CreateEmpty()
            kind = "empty"
        elif len(d) == 1 and list(d.values())[0][1] == 1:
            from barril.units import ObtainQuantity

            (c, (u, e)), = d.items()
            q = ObtainQuantity(u, c)
            kind = "simple"
        else:
            q = Quantity.CreateDerived(OrderedDict((c, list(ue)) for c, ue in d.items()))
            kind = "derived"
        unit = q.GetUnit()
        ctx.cls("own_unit_" + kind)
        if kind != "simple":
            ctx.nontrivial(("own", kind, unit, tuple(d)), case)

        def scalar():
            s = Scalar.CreateWithQuantity(q, x)
            ctx.ev()
            got = s.GetValue(unit)
            if got != x:
                ctx.record("own_unit_value_changed:Scalar:%s" % kind, dict(case, route="Scalar"), "%r.GetValue(%r) = %r" % (s, unit, got))

        self.run_route("own_unit:Scalar:%s" % kind, case, scalar)

        def arrays():
            for ck in ("list", "tuple", "ndarray"):
                cont = gen.as_container(ck, xs)
                a = Array.CreateWithQuantity(q, cont)
                ctx.ev()
                got = a.GetValues(unit)
                if got is not cont and list(got) != list(cont):
                    ctx.record("own_unit_value_changed:Array:%s" % kind, dict(case, route="Array", container=ck), "%r.GetValues(%r) = %r" % (a, unit, got))
                fa = FixedArray.CreateWithQuantity(q, cont, dimension=2)
                ctx.ev()
                got = fa.GetValues(unit)
                if got is not cont and list(got) != list(cont):
                    ctx.record("own_unit_value_changed:FixedArray:%s" % kind, dict(case, route="FixedArray", container=ck), "%r.GetValues(%r) = %r" % (fa, unit, got))
                s = fa.IndexAsScalar(1)
                ctx.ev()
                if s.GetValue() != xs[1] or s.GetQuantity() != q:
                    ctx.record("own_unit_value_changed:FixedArray.IndexAsScalar:%s" % kind, dict(case, route="FixedArray", container=ck), "%r.IndexAsScalar(1) = %r" % (fa, s))

        self.run_route("own_unit:Array:%s" % kind, case, arrays)
        if kind == "simple":

            def fraction():
                fv = FractionValue(int(x) if float(x).is_integer() else 3, (1, 2))
                f = FractionScalar.CreateWithQuantity(q, fv)
                ctx.ev()
                got = f.GetValue(unit)
                if got != fv:
                    ctx.record("own_unit_value_changed:FractionScalar:%s" % kind, dict(case, route="FractionScalar"), "%r.GetValue(%r) = %r" % (f, unit, got))

            self.run_route("own_unit:FractionScalar:%s" % kind, case, fraction)


def _values(vec):
    # distinct floats, a simple value first so that a reported case is small
    out = [1.0]
    for x in vec:
        x = float(x)
        if x not in out:
            out.append(x)
    while len(out) < 3:
        out.append(out[-1] + 1.5)
    return out[:4]


def run_shard(spec, ctx):
    from bv import dims

    tier = spec["tier"]
    db = env.new_db("posc")
    with env.pushed(db):
        ch = Checker(ctx, db)
        items, weights = [], []
        for qt in sorted(db.quantity_types):
            if qt not in ch.cats:
                continue
            us = [i.unit for i in db.quantity_types[qt]]
            for iu, u in enumerate(us):
                items.append((qt, iu, u))
                weights.append(len(us) if tier == "thorough" else 2)
        mine = partition(items, weights, spec["nparts"])[spec["part"]]
        # quantities of some units are obtained, then the same symbols are offered for registration once more with other
        # formulas (refused: nothing changes) - all routes below still give the database's numbers
        from barril.units import ObtainQuantity as _OQ

        again = [u for _qt, _iu, u in mine[:: max(1, len(mine) // 30)]]
        before = {}
        for sym in again:
            _OQ(sym)
            qt_ = db.unit_to_unit_info[sym].quantity_type
            before[sym] = [db.Convert(qt_, sym, w.unit, 2.5) for w in db.quantity_types[qt_][:3]]
        env.refused_reregistrations(db, again)
        for sym in again:
            qt_ = db.unit_to_unit_info[sym].quantity_type
            after = [db.Convert(qt_, sym, w.unit, 2.5) for w in db.quantity_types[qt_][:3]]
            ctx.ev()
            if after != before[sym]:
                ctx.record("conversion_changed_by_a_refused_registration:%s" % sym, {"kind": "reregistration", "sym": sym}, "after AddUnit for the existing symbol %r was refused, 2.5 %s converts to %r (before: %r)" % (sym, sym, after, before[sym]))
        ctx.cls("refused_reregistrations_first", len(again))
        ctx.exhaustive["unit pairs per quantity type"] = "all" if tier == "thorough" else "every unit as source, Hypothesis-drawn partner offsets"
        ctx.exhaustive["(category, unit) defaults"] = "all"

        def sweep(vec, ints, offsets, cat_rot):
            xs = _values(vec)
            for qt, iu, u in mine:
                if ctx.out_of_time():
                    return
                us = [i.unit for i in db.quantity_types[qt]]
                cats = ch.cats[qt]
                if offsets is None:
                    vs = list(enumerate(us))
                else:
                    vs = [((iu + 1 + o) % len(us), us[(iu + 1 + o) % len(us)]) for o in offsets] if len(us) > 1 else [(iu, u)]
                    # pairs with an affine side are rare in the table: always take all of them
                    if ch.um.offset[u] != 0:
                        vs = list(enumerate(us))
                    else:
                        vs += [(j, w) for j, w in enumerate(us) if ch.um.offset[w] != 0 and (j, w) not in vs]
                    # so are targets that have a legacy spelling (a quarter of the sources per draw)
                    if (iu + offsets[0]) % 4 == 0:
                        vs += [(j, w) for j, w in enumerate(us) if w in ch.legacy_of and (j, w) not in vs]
                for iv, v in vs:
                    cat = cats[(iu + iv + cat_rot) % len(cats)]
                    ch.check_pair({"qt": qt, "u": u, "v": v, "cat": cat, "xs": xs, "ints": ints})

        n_ex = 2

        @given(
            st.lists(gen.finite_values(1e15, 1e-15), min_size=3, max_size=3),
            st.lists(st.integers(-(2**40), 2**40), min_size=2, max_size=2),
            st.lists(st.integers(0, 200), min_size=3, max_size=3),
            st.integers(0, 30),
        )
        def generated(vec, ints, offsets, cat_rot):
            ctx.cls("generated_value_vectors")
            sweep(vec, ints, None if tier == "thorough" else offsets, cat_rot)

        core.hunt(ctx, lambda: generated, spec["seed"] * 1000 + spec["shard"], n_ex, shrink=False)

        # defaults: every category x every unit of its type (exhaustive), split over shards by category index
        all_cats = sorted(db.IterCategories())
        for i, cat in enumerate(all_cats):
            if i % spec["nparts"] != spec["part"]:
                continue
            qt = db.GetCategoryQuantityType(cat)
            for info in db.quantity_types[qt]:
                ch.check_default({"cat": cat, "v": info.unit})
        # generated categories with non-zero default value and non-base default unit in a scratch database
        if spec["part"] == 0:
            sdb = env.new_db("posc")
            with env.pushed(sdb):
                sch = Checker(ctx, sdb)
                k = 0
                for qt in ("length", "temperature", "pressure", "time", "volume", "mass"):
                    us = [i.unit for i in sdb.quantity_types[qt]]
                    for du in us[1:6]:
                        k += 1
                        name = "bv default %d" % k
                        sdb.AddCategory(name, qt, default_unit=du, default_value=2.5 * k)
                        for v in us[:12]:
                            sch.check_default({"cat": name, "v": v, "scratch": [qt, du, 2.5 * k]})
                            ctx.cls("scratch_category_defaults")

        # own unit: simple / derived / empty
        pool = dims.DimPool(db, ch.um)

        @st.composite
        def own_case(draw):
            k = draw(st.sampled_from(["simple", "derived", "derived", "empty"]))
            x = draw(gen.finite_values(1e12, 1e-12))
            if k == "empty":
                return {"d": {}, "x": x}
            if k == "simple":
                qt = draw(st.sampled_from(sorted(ch.cats)))
                u = draw(st.sampled_from([i.unit for i in db.quantity_types[qt]]))
                return {"d": {draw(st.sampled_from(ch.cats[qt])): [u, 1]}, "x": x}
            shape = draw(pool.shape_strategy())
            d, _ = draw(pool.instance_strategy(shape))
            return {"d": {c: list(v) for c, v in d.items()}, "x": x}

        @given(own_case())
        def own(case):
            ch.check_own_unit(case)

        core.hunt(ctx, lambda: own, spec["seed"] * 1000 + 500 + spec["shard"], 150 if tier == "quick" else 3000, shrink=False)

    # a second, different database used later in the same process (all pairs, all categories, all routes)
    if spec["part"] < 2:
        variant_sweep(ctx, [1.0, -2.5, 1e3 + spec["seed"]], [3, -7])
        check_objects_of_another_database(ctx)
        ctx.exhaustive["second database sharing symbols with the shipped one (all pairs)"] = "all"


def variant_db():
    """A second database in the same process whose units share *symbols* with the shipped table but
    not their factors (project-specific tables do this): results must come from the database in use,
    never from something remembered per symbol."""
    from barril.units import UnitDatabase

    db = UnitDatabase()
    db.AddUnitBase("length", "meters", "m")
    db.AddUnit("length", "centimeters", "cm", "%f * 50.0", "%f / 50.0")
    db.AddUnit("length", "feet", "ft", "%f * 2.0", "%f / 2.0")
    db.AddUnit("length", "kilometers", "km", lambda x: x / 250.0, lambda x: x * 250.0)
    db.AddUnitBase("temperature", "Kelvin", "K")
    db.AddUnit("temperature", "Celsius", "degC", "%f - 100.0", "%f + 100.0")
    db.AddUnit("temperature", "Fahrenheit", "degF", "%f * 2.0 - 50.0", "(%f + 50.0) / 2.0")
    db.AddUnitBase("time", "seconds", "s")
    db.AddUnit("time", "minutes", "min", "%f / 10.0", "%f * 10.0")
    db.AddUnit("time", "hours", "h", "%f / 100.0", "%f * 100.0")
    db.AddCategory("length", "length")
    db.AddCategory("depth", "length", default_unit="ft")
    db.AddCategory("temperature", "temperature")
    db.AddCategory("time", "time")
    return db


def check_objects_of_another_database(ctx):
    """Quantities and objects obtained while a project database was current are used after the shipped one became
    current again: every route still converts with the factors of the database the quantity belongs to - flat and
    nested containers, objects built on the quantity, copies with new values."""
    import numpy

    from barril.units import Array, FixedArray, ObtainQuantity, Scalar

    vdb = variant_db()
    with env.pushed(vdb):
        q = ObtainQuantity("cm", "length")
        src = Array([1.0, 2.0], "cm", "length")
        sc = Scalar(2.0, "cm", "length")
    vals = [1.0, 2.5, -4.0, 8.0]
    want = {x: vdb.Convert("length", "cm", "m", x) for x in vals}
    pairs = ((vals[0], vals[1]), (vals[2], vals[3]))
    routes = [
        ("Scalar.CreateWithQuantity(q).GetValue", lambda: [Scalar.CreateWithQuantity(q, x).GetValue("m") for x in vals]),
        ("Array(q, list).GetValues", lambda: list(Array(q, list(vals)).GetValues("m"))),
        ("Array(q, ndarray).GetValues", lambda: list(Array(q, numpy.array(vals)).GetValues("m"))),
        ("Array(q, tuple of tuples).GetValues", lambda: [t for row in Array(q, pairs).GetValues("m") for t in row]),
        ("Array(q, list of tuples).GetValues", lambda: [t for row in Array(q, list(pairs)).GetValues("m") for t in row]),
        ("source.CreateCopy(values=tuple of tuples).GetValues", lambda: [t for row in src.CreateCopy(values=pairs).GetValues("m") for t in row]),
        ("source.CreateCopy(values=list).GetValues", lambda: list(src.CreateCopy(values=list(vals)).GetValues("m"))),
        ("FixedArray(4, q, tuple).GetValues", lambda: list(FixedArray(4, q, tuple(vals)).GetValues("m"))),
        ("FixedArray(2, q, tuple of tuples).GetValues", lambda: [t for row in FixedArray(2, q, pairs).GetValues("m") for t in row]),
        ("Scalar.CreateCopy(value).GetValue", lambda: [sc.CreateCopy(value=x).GetValue("m") for x in vals]),
    ]
    for name, fn in routes:
        ctx.ev()
        try:
            got = [float(t) for t in fn()]
        except Exception as e:
            if core.tree_frame(e) is None:
                raise
            ctx.record("route_raises:other_database:%s:%s" % (name, type(e).__name__), {"kind": "other_database", "route": name}, "route %s on a quantity of a project database (shipped database current) raised %s: %s" % (name, type(e).__name__, str(e)[:160]))
            continue
        if got != [want[x] for x in vals]:
            ctx.record("route_uses_another_database_than_the_quantitys:%s" % name, {"kind": "other_database", "route": name}, "route %s on a quantity of a project database (cm = 50 m there) while the shipped database is current gives %r, the quantity's database converts to %r" % (name, got, [want[x] for x in vals]))
    ctx.cls("objects_of_another_database_checked")


def variant_sweep(ctx, xs, ints):
    vdb = variant_db()

    def shipped_pairs(tag):
        # the very same (quantity type, unit, unit) pairs through every route of the shipped table, before and after
        # the project database used them: whatever either database remembers per symbol must not reach the other
        sdb = env.new_db("posc")
        with env.pushed(sdb):
            sch = Checker(ctx, sdb)
            for qt in sorted(vdb.quantity_types):
                us = [i.unit for i in vdb.quantity_types[qt]]
                for u in us:
                    for v in us:
                        sch.check_pair({"qt": qt, "u": u, "v": v, "cat": sch.cats[qt][0], "xs": xs, "ints": ints, "config": "shipped_" + tag})
                        ctx.cls("shipped_pairs_%s_the_variant_database" % tag)

    shipped_pairs("before")
    _variant_pairs(ctx, vdb, xs, ints)
    shipped_pairs("after")
    _variant_pairs(ctx, vdb, xs, ints)


def _variant_pairs(ctx, vdb, xs, ints):
    with env.pushed(vdb):
        vch = Checker(ctx, vdb)
        for qt in sorted(vdb.quantity_types):
            us = [i.unit for i in vdb.quantity_types[qt]]
            for u in us:
                for v in us:
                    for cat in vch.cats[qt]:
                        vch.check_pair({"qt": qt, "u": u, "v": v, "cat": cat, "xs": xs, "ints": ints, "config": "variant"})
                        ctx.cls("variant_database_pairs")


def replay(case, ctx):
    if case.get("kind") == "reregistration":
        db = env.new_db("posc")
        with env.pushed(db):
            from barril.units import ObtainQuantity

            sym = case["sym"]
            ObtainQuantity(sym)
            qt_ = db.unit_to_unit_info[sym].quantity_type
            before = [db.Convert(qt_, sym, w.unit, 2.5) for w in db.quantity_types[qt_][:3]]
            env.refused_reregistrations(db, [sym])
            after = [db.Convert(qt_, sym, w.unit, 2.5) for w in db.quantity_types[qt_][:3]]
        return [] if after == before else ["after a refused AddUnit for %r: %r, before %r" % (sym, after, before)]
    if case.get("kind") == "other_database":
        db = env.new_db("posc")
        with env.pushed(db):
            check_objects_of_another_database(ctx)
        return ["%s: %s" % (k, v["msg"]) for k, v in ctx.violations.items()]
    if str(case.get("config", "")).startswith("shipped_"):
        # the project database uses the pair first, as in the sweep
        vdb = variant_db()
        with env.pushed(vdb):
            Checker(core.Ctx(PID, "quick", 0), vdb).check_pair(dict(case, cat=case["qt"], config="variant"))
        db = env.new_db("posc")
        with env.pushed(db):
            Checker(ctx, db).check_pair(case)
        return ["%s: %s" % (k, v["msg"]) for k, v in ctx.violations.items()]
    if case.get("config") == "variant":
        # the shipped table is used first in the same process, as in the sweep
        db = env.new_db("posc")
        with env.pushed(db):
            warm = core.Ctx(PID, "quick", 0)
            wc = Checker(warm, db)
            if case["u"] in db.unit_to_unit_info and case["v"] in db.unit_to_unit_info:
                wc.check_pair(dict(case, cat=case["qt"], config="posc"))
        vdb = variant_db()
        with env.pushed(vdb):
            Checker(ctx, vdb).check_pair(case)
        return ["%s: %s" % (k, v["msg"]) for k, v in ctx.violations.items()]
    db = env.new_db("posc")
    with env.pushed(db):
        ch = Checker(ctx, db)
        if "d" in case:
            ch.check_own_unit(case)
        elif "cat" in case and "u" not in case:
            if "scratch" in case:
                qt, du, dv = case["scratch"]
                db.AddCategory(case["cat"], qt, default_unit=du, default_value=dv)
            ch.check_default(case)
        else:
            ch.check_pair(case)
    return ["%s: %s" % (k, v["msg"]) for k, v in ctx.violations.items()]
