"""C03 — addition and subtraction are physically sound, also for derived units."""
from hypothesis import given, strategies as st

from bv import core, dims, env, gen
from bv.model import UnitModel

PID = "C03"
RULE = (
    "Hypothesis generates a dimension shape (1..4 factors (quantity type, exponent in -3..3), types drawn from "
    "all table types with >=2 scale-only units, weighted to length/time/mass/pressure/volume), two instances of it "
    "with independently chosen units (one per quantity type) and categories, each built either directly "
    "(CreateDerived) or by multiplying/dividing leaf Scalars, finite values, + or -, Scalar or Array "
    "(list/tuple/ndarray). Oracle (independent model): result quantity == left operand's quantity and value == "
    "a.value +/- b.value*prod((slope(u_b)/slope(u_a))**E) (rel 1e-9 of |a|+|b'|); (a+b)-b ~ a (Scalars and Arrays), a op b twice on the same operand objects gives the same values; mag(a+b) ~ mag(b+a). "
    "Simple exponent-1 quantities additionally over affine units against a.value +/- Convert(u_b->u_a, b.value); units with an offset also under exponents -2..3 inside derived operands (1/degC + 1/K, psig2, with or without a second factor), where the ratio is the ratio of the unit sizes. "
    "A left operand created directly on a derived quantity that writes one quantity type in two units under two categories (m.km): amount in base units, categories, repeatability and b op a, and the units against the bug model of known finding 30. "
    "Scalar operands may be instances of a Scalar subclass (the other one plain, or of a sibling subclass). Sums of operands of this database taken while a project database (same symbols, other factors) is current equal the sums taken while their own database is current. Non-trivial = operands differ in a unit of a shared type and (some |exponent|>=2 or >=2 quantity types); "
    "distinct key = (instance a, instance b, op, container)."
)
ASSUMPTIONS = ["UnitModel slopes come from single-unit float conversions (validated by C01)", "for a unit with an offset inside a derived quantity the unit ratio is the ratio of the unit sizes (1/degC against 1/K is 1): offsets only apply to exponent-1 single-unit quantities"]
BUDGET_S = {"quick": 120, "thorough": 1200}
N = {"quick": 1200, "thorough": 30000}
SHARDS = {"quick": 6, "thorough": 16}


def plan(tier, seed):
    return [{"tier": tier, "seed": seed, "n": N[tier]} for _ in range(SHARDS[tier])]


def _subclasses():
    from barril.units import Scalar

    class SubA(Scalar):
        pass

    class SubB(Scalar):
        pass

    return SubA, SubB


class _Lazy:
    """Scalar subclasses created on first use (barril is imported by the shard, not at module import)."""

    def __init__(self, i):
        self.i = i

    def CreateWithQuantity(self, q, v):
        global _SUBS
        if _SUBS is None:
            _SUBS = _subclasses()
        return _SUBS[self.i].CreateWithQuantity(q, v)


_SKEWED = None
_SUBS = None
_SubA, _SubB = _Lazy(0), _Lazy(1)


class Checker:
    def __init__(self, ctx, db):
        self.ctx = ctx
        self.db = db
        self.um = UnitModel(db)
        self.pool = dims.DimPool(db, self.um)

    def ratio(self, ua, ub, tot):
        r = 1.0
        for qt, E in tot.items():
            r *= (self.um.slope[ub[qt]] / self.um.slope[ua[qt]]) ** E
        return r

    def check_pair(self, case):
        """case: da, db (cat->[unit,exp]), va, vb (lists), op, route_a, route_b, kind"""
        from barril.units import Array

        ctx, db = self.ctx, self.db
        da, dbb = case["da"], case["db"]
        ta, tb = dims.totals(db, da), dims.totals(db, dbb)
        assert ta == tb, "generator: shapes differ"
        ua = {db.GetCategoryQuantityType(c): u for c, (u, e) in da.items()}
        ub = {db.GetCategoryQuantityType(c): u for c, (u, e) in dbb.items()}
        build = {"direct": dims.build_direct, "arith": dims.build_by_arithmetic}
        sa = build[case["route_a"]](da, 1.0)
        sb = build[case["route_b"]](dbb, 1.0)
        qa, qb = sa.GetQuantity(), sb.GetQuantity()
        kind = case["kind"]
        va, vb = list(case["va"]), list(case["vb"])
        n = min(len(va), len(vb))
        va, vb = va[:n], vb[:n]
        from barril.units import Scalar

        if kind == "scalar":
            # (applications subclass Scalar: an operand may be an instance of a subclass, the other one a plain Scalar
            # or an instance of a sibling subclass)
            cls_a = {1: _SubA, 2: _SubB}.get(case.get("sub_a", 0), Scalar)
            cls_b = {1: _SubA, 2: _SubB}.get(case.get("sub_b", 0), Scalar)
            if cls_a is not cls_b:
                ctx.cls("operands_of_different_scalar_classes")
            a = cls_a.CreateWithQuantity(qa, va[0])
            b = cls_b.CreateWithQuantity(qb, vb[0])
            va, vb = va[:1], vb[:1]
        else:
            # the two operands need not share a container kind, and a numpy operand may hold integers: the other
            # operand's amounts are what they are, whatever dtype its partner has
            ka, kb = kind, case.get("kind_b", kind)
            if case.get("int_a") and ka == "ndarray":
                va = [float(round(x)) or 1.0 for x in va]
                ka = "ndarray_int"
                ctx.cls("integer_ndarray_operand")
            if case.get("int_b") and kb == "ndarray":
                vb = [float(round(x)) or 1.0 for x in vb]
                kb = "ndarray_int"
                ctx.cls("integer_ndarray_operand")
            if ka != kb:
                ctx.cls("operands_in_different_containers")
            a = Array.CreateWithQuantity(qa, gen.as_container(ka, va))
            b = Array.CreateWithQuantity(qb, gen.as_container(kb, vb))
        op = case["op"]
        try:
            r = a + b if op == "+" else a - b
        except TypeError as e:
            # (both operands declined: the interpreter raises this one itself, there is no library frame in it)
            ctx.fail("sum_of_matching_dimensions_raises_TypeError", case, "%r %s %r raised TypeError: %s" % (a, op, b, e))
            return
        ctx.ev()
        ratio = self.ratio(ua, ub, ta)
        if not (1e-150 < abs(ratio) < 1e150):
            ctx.cls("skipped_extreme_ratio")
            return
        rv = [r.GetValue()] if kind == "scalar" else list(r.GetValues())
        differ = ua != ub
        powered = len(ta) > 1 or any(v != 1 for v in ta.values())
        cname = "same_units" if not differ else ("power_or_multitype" if powered else "exponent1_single_type")
        ctx.cls(cname)
        if case.get("affine_derived") and differ:
            ctx.cls("offset_unit_under_exponent")
        if tuple(da) != tuple(dbb):
            ctx.cls("categories_differ")
        ctx.cls("kind_" + kind)
        if differ and powered:
            ctx.nontrivial((tuple((c, tuple(v)) for c, v in da.items()), tuple((c, tuple(v)) for c, v in dbb.items()), op, kind), case)
        key_suffix = "derived" if powered else "simple"
        if r.GetQuantity() != qa:
            ctx.fail("result_quantity_not_left_operand:%s" % key_suffix, case, "(%r %s %r) has quantity %r, expected the left operand's %r" % (a, op, b, r.GetQuantity(), qa))
        if len(rv) != len(va):
            ctx.fail("result_length:%s" % key_suffix, case, "result has %d elements, operands %d" % (len(rv), len(va)))
        for x, y, got in zip(va, vb, rv):
            conv = y * ratio
            want = x + conv if op == "+" else x - conv
            if not core.close(got, want, abs(x) + abs(conv), 1e-9):
                ctx.fail(
                    "sum_value_wrong:%s" % key_suffix,
                    case,
                    "%r %s %r = %r; expected value %r (b re-expressed in a's units = %r, ratio %r)" % (a, op, b, r, want, conv, ratio),
                )
        # the same operand objects once more: a second a op b gives the same values, and the operands still hold
        # what they held (an addition that rescales an operand's container while matching units shows up here)
        r_again = a + b if op == "+" else a - b
        ctx.ev()
        rv2 = [r_again.GetValue()] if kind == "scalar" else list(r_again.GetValues())
        if [float(x) for x in rv2] != [float(x) for x in rv]:
            ctx.fail("sum_not_repeatable:%s" % key_suffix, case, "the same %r %s %r computed twice gives %r and then %r" % (a, op, b, rv, rv2))
        if kind != "scalar":
            back = (r - b) if op == "+" else (r + b)
            ctx.ev()
            for x, y, got in zip(va, vb, list(back.GetValues())):
                if not core.close(got, x, abs(x) + 2 * abs(y * ratio), 1e-9):
                    ctx.fail("add_then_subtract_not_identity:%s" % key_suffix, case, "((a %s b) inverse b) = %r, a = %r" % (op, back, a))
                    break
        # (a+b)-b ~ a   and   a+b ~ b+a (physical amount)
        if kind == "scalar":
            back = (r - b) if op == "+" else (r + b)
            ctx.ev()
            if not core.close(back.GetValue(), va[0], abs(va[0]) + 2 * abs(vb[0] * ratio), 1e-9):
                ctx.fail("add_then_subtract_not_identity:%s" % key_suffix, case, "((a %s b) inverse b) = %r, a = %r" % (op, back, a))
            if op == "+":
                r2 = b + a
                ctx.ev()
                from bv.model import mag_of

                m1 = mag_of(self.um, r.GetQuantity(), r.GetValue())
                m2 = mag_of(self.um, r2.GetQuantity(), r2.GetValue())
                ma = mag_of(self.um, qa, abs(va[0])) + mag_of(self.um, qb, abs(vb[0]))
                if not core.close(m1, m2, abs(ma), 1e-9):
                    ctx.fail("addition_not_commutative:%s" % key_suffix, case, "a+b = %r (base magnitude %r) but b+a = %r (base magnitude %r)" % (r, m1, r2, m2))

    def check_mixed(self, case):
        """the left operand was created directly on a derived quantity that writes one quantity type in two units
        under two categories (m.km); b has the same dimension in one unit per type"""
        from collections import OrderedDict

        from barril.units import Array, Quantity, Scalar

        ctx, db, um = self.ctx, self.db, self.um
        fa, fb, kind, x, y, op = case["a"], case["b"], case["kind"], case["x"], case["y"], case["op"]
        qa = Quantity.CreateDerived(OrderedDict((c, [u, e]) for c, u, e in fa))
        qb = Quantity.CreateDerived(OrderedDict((c, [u, e]) for c, u, e in fb))
        if kind == "scalar":
            a, b = Scalar.CreateWithQuantity(qa, x), Scalar.CreateWithQuantity(qb, y)
        else:
            a, b = Array.CreateWithQuantity(qa, gen.as_container(kind, [x, 2 * x])), Array.CreateWithQuantity(qb, gen.as_container(kind, [y, 3 * y]))
        unit_a = unit_b = 1.0
        for c, u, e in fa:
            unit_a *= um.slope[u] ** e
        for c, u, e in fb:
            unit_b *= um.slope[u] ** e
        ctx.cls("left_operand_mixes_units_of_one_type")
        ctx.nontrivial(("mixed", repr(fa), repr(fb), op, kind), case)
        sign = 1.0 if op == "+" else -1.0
        for what, l, r_, ul, ur, vl, vr, fl in (("a%sb" % op, a, b, unit_a, unit_b, x, y, fa), ("b%sa" % op, b, a, unit_b, unit_a, y, x, fb)):
            r = l + r_ if op == "+" else l - r_
            ctx.ev()
            q = r.GetQuantity()
            v0 = r.GetValue() if kind == "scalar" else float(list(r.GetValues())[0])
            from bv.model import mag_of

            want_mag = vl * ul + sign * vr * ur
            got_mag = mag_of(um, q, v0)
            if not core.close(got_mag, want_mag, abs(vl * ul) + abs(vr * ur), 1e-9):
                ctx.fail("sum_amount_wrong:mixed_units_in_one_type", case, "%s with a=%r, b=%r = %r: %r in base units, expected %r" % (what, a, b, r, got_mag, want_mag))
            got_cats = [(c, e) for c, (u, e) in q.GetCategoryToUnitAndExps().items()]
            if got_cats != [(c, e) for c, u, e in fl]:
                ctx.fail("result_categories_not_left_operands:mixed_units_in_one_type", case, "%s = %r has categories %r, the left operand %r" % (what, r, got_cats, fl))
            got_units = [u for c, (u, e) in q.GetCategoryToUnitAndExps().items()]
            if got_units != [u for c, u, e in fl]:
                # bug model: the left operand's own units are matched to each other first (the unit written first for a
                # quantity type wins), and the result is expressed in those
                first = {}
                for c, u, e in fl:
                    first.setdefault(um.qt[u], u)
                if got_units == [first[um.qt[u]] for c, u, e in fl]:
                    ctx.fail("result_units_not_left_operands:left_operand_mixes_units_of_one_type:normalised_to_first_unit_of_the_type", case, "%s = %r is expressed in %r, the left operand in %r (the amount is right)" % (what, r, got_units, [u for c, u, e in fl]))
                else:
                    ctx.fail("result_units_not_left_operands:mixed_units_in_one_type", case, "%s = %r is expressed in %r, the left operand in %r" % (what, r, got_units, [u for c, u, e in fl]))
            r2 = l + r_ if op == "+" else l - r_
            v2 = r2.GetValue() if kind == "scalar" else float(list(r2.GetValues())[0])
            if v2 != v0 or repr(r2.GetQuantity()) != repr(q):
                ctx.fail("sum_not_repeatable:mixed_units_in_one_type", case, "%s computed twice on the same operands gives %r and then %r" % (what, r, r2))

    def check_other_database_current(self, case):
        """the operands belong to this database; the sum is taken once while it is current and once while a project
        database that defines the same symbols with other factors is current: the same result (what the operands'
        own database says), whichever database happens to be current"""
        import numpy

        from barril.units import Array, Scalar

        ctx = self.ctx
        ua, ub, e, x, y, kind, op = case["ua"], case["ub"], case["e"], case["x"], case["y"], case["kind"], case["op"]

        def power(s, e):
            if e == 1:
                return s
            if e == -1:
                return 1.0 / s
            r = s
            for _ in range(abs(e) - 1):
                r = r * s
            return r if e > 0 else 1.0 / r

        a, b = power(Scalar(x, ua), e), power(Scalar(y, ub), e)
        if kind != "scalar":
            mk = list if kind == "list" else numpy.array
            a, b = Array.CreateWithQuantity(a.GetQuantity(), mk([a.value, 1.0])), Array.CreateWithQuantity(b.GetQuantity(), mk([b.value, 2.0]))
        ref = repr(a + b if op == "+" else a - b)
        global _SKEWED
        if _SKEWED is None:
            _SKEWED = env.skewed_db()
        ctx.ev()
        with env.pushed(_SKEWED):
            got = repr(a + b if op == "+" else a - b)
        if got != ref:
            ctx.fail("sum_depends_on_the_current_database", case, "%r %s %r gives %s while its own database is current and %s while a project database is" % (a, op, b, ref, got))
        ctx.cls("sum_under_another_current_database")
        ctx.nontrivial(("other_db", ua, ub, e, kind, op), case if len(ctx.samples) < 12 else None)

    def check_affine(self, case):
        """exponent-1 quantities over any unit of the type, incl. affine: statement's own wording."""
        from barril.units import Scalar

        ctx, db = self.ctx, self.db
        qt, ua, ub, ca, cb, x, y, op = (case[k] for k in ("qt", "ua", "ub", "ca", "cb", "x", "y", "op"))
        a = Scalar(x, ua, ca)
        b = Scalar(y, ub, cb)
        r = a + b if op == "+" else a - b
        ctx.ev()
        conv = db.Convert(qt, ub, ua, y)
        want = x + conv if op == "+" else x - conv
        aff = self.um.offset[ua] != 0 or self.um.offset[ub] != 0
        ctx.cls("affine_pair" if aff else "simple_pair")
        if ua != ub and aff:
            ctx.nontrivial((qt, ua, ub, ca, cb, op), case)
        if r.GetQuantity() != a.GetQuantity():
            ctx.fail("result_quantity_not_left_operand:simple", case, "%r %s %r has quantity %r" % (a, op, b, r.GetQuantity()))
        S = abs(x) + self.um.conv_scale(ub, ua, y)
        if not core.close(r.GetValue(), want, S, 1e-12):
            ctx.fail("sum_value_wrong:simple", case, "%r %s %r = %r; expected %r" % (a, op, b, r, want))


def _strategies(ch):
    pool = ch.pool
    vals = st.lists(gen.moderate_values(1e-3, 1e4), min_size=1, max_size=5)

    @st.composite
    def pair_case(draw):
        shape = draw(pool.shape_strategy())
        da, _ = draw(pool.instance_strategy(shape))
        dbb, _ = draw(pool.instance_strategy(shape))
        kind = draw(st.sampled_from(["scalar", "scalar", "scalar", "list", "tuple", "ndarray"]))
        n = 1 if kind == "scalar" else draw(st.integers(1, 4))
        va = draw(st.lists(gen.moderate_values(1e-3, 1e4), min_size=n, max_size=n))
        vb = draw(st.lists(gen.moderate_values(1e-3, 1e4), min_size=n, max_size=n))
        return {
            "da": {c: list(v) for c, v in da.items()},
            "db": {c: list(v) for c, v in dbb.items()},
            "va": va,
            "vb": vb,
            "op": draw(st.sampled_from(["+", "-"])),
            "route_a": draw(st.sampled_from(["direct", "arith"])),
            "route_b": draw(st.sampled_from(["direct", "arith"])),
            "kind": kind,
            "kind_b": kind if kind == "scalar" else draw(st.sampled_from([kind, kind, "list", "tuple", "ndarray"])),
            "sub_a": draw(st.sampled_from([0, 0, 1, 2])),
            "sub_b": draw(st.sampled_from([0, 0, 0, 1])),
            "int_a": draw(st.sampled_from([False, False, True])),
            "int_b": draw(st.sampled_from([False, False, False, True])),
        }

    db = ch.db
    all_qts = [qt for qt in sorted(db.quantity_types) if qt in pool.cats and qt != "Unknown" and len(db.quantity_types[qt]) >= 2]
    aff_qts = [qt for qt in all_qts if any(ch.um.offset[u] != 0 for u in ch.um.units(qt))]

    @st.composite
    def affine_case(draw):
        qt = draw(st.one_of(st.sampled_from(aff_qts), st.sampled_from(all_qts)))
        us = ch.um.units(qt)
        return {
            "qt": qt,
            "ua": draw(st.sampled_from(us)),
            "ub": draw(st.sampled_from(us)),
            "ca": draw(st.sampled_from(pool.cats[qt])),
            "cb": draw(st.sampled_from(pool.cats[qt])),
            "x": draw(gen.finite_values(1e12, 1e-12)),
            "y": draw(gen.finite_values(1e12, 1e-12)),
            "op": draw(st.sampled_from(["+", "-"])),
        }

    @st.composite
    def affine_derived_case(draw):
        """a unit with an offset under an exponent other than 1 (1/degC, psig2, m/degF ...): the unit ratio is the
        ratio of the unit sizes, the offsets play no part in a derived quantity"""
        qt = draw(st.sampled_from(aff_qts))
        e = draw(st.sampled_from([-2, -1, -1, 2, 3]))
        us = ch.um.units(qt)
        aff_us = [u for u in us if ch.um.offset[u] != 0]
        ua_ = draw(st.one_of(st.sampled_from(aff_us), st.sampled_from(us)))
        ub_ = draw(st.one_of(st.sampled_from(aff_us), st.sampled_from(us)))
        ca = draw(st.sampled_from(pool.cats[qt]))
        cb = draw(st.sampled_from(pool.cats[qt]))
        da, dbb = {ca: [ua_, e]}, {cb: [ub_, e]}
        if draw(st.booleans()):
            qt2 = draw(pool.qt_strategy())
            if qt2 != qt:
                e2 = draw(st.sampled_from([-1, 1, 2]))
                c2a = draw(st.sampled_from(pool.cats[qt2]))
                c2b = draw(st.sampled_from(pool.cats[qt2]))
                da[c2a] = [draw(st.sampled_from(pool.units[qt2])), e2]
                dbb[c2b] = [draw(st.sampled_from(pool.units[qt2])), e2]
        kind = draw(st.sampled_from(["scalar", "scalar", "list", "ndarray"]))
        n = 1 if kind == "scalar" else draw(st.integers(1, 3))
        return {
            "da": da,
            "db": dbb,
            "va": draw(st.lists(gen.moderate_values(1e-3, 1e4), min_size=n, max_size=n)),
            "vb": draw(st.lists(gen.moderate_values(1e-3, 1e4), min_size=n, max_size=n)),
            "op": draw(st.sampled_from(["+", "-"])),
            "route_a": draw(st.sampled_from(["direct", "arith"])),
            "route_b": draw(st.sampled_from(["direct", "arith"])),
            "kind": kind,
            "affine_derived": True,
        }

    mqts = [qt for qt in pool.qts if len(pool.cats[qt]) >= 2 and len(pool.units[qt]) >= 2]

    @st.composite
    def mixed_case(draw):
        qt = draw(st.one_of(st.sampled_from([q for q in pool.fav if q in mqts] or mqts), st.sampled_from(mqts)))
        c1, c2 = draw(st.permutations(pool.cats[qt]))[:2]
        u1, u2 = draw(st.permutations(pool.units[qt]))[:2]
        e1, e2 = draw(st.sampled_from([(1, 1), (1, 2), (2, 1), (2, -1), (1, -2)]))
        fa = [[c1, u1, e1], [c2, u2, e2]]
        fb = [[draw(st.sampled_from(pool.cats[qt])), draw(st.sampled_from(pool.units[qt])), e1 + e2]]
        if draw(st.booleans()):
            qt3 = draw(pool.qt_strategy())
            if qt3 != qt:
                e3 = draw(st.sampled_from([1, -1, 2]))
                fa.append([draw(st.sampled_from(pool.cats[qt3])), draw(st.sampled_from(pool.units[qt3])), e3])
                fb.append([draw(st.sampled_from(pool.cats[qt3])), draw(st.sampled_from(pool.units[qt3])), e3])
        return {
            "mixed": True,
            "a": fa,
            "b": fb,
            "kind": draw(st.sampled_from(["scalar", "scalar", "list", "ndarray"])),
            "x": draw(gen.moderate_values(1e-3, 1e4)),
            "y": draw(gen.moderate_values(1e-3, 1e4)),
            "op": draw(st.sampled_from(["+", "-"])),
        }

    shared = [["m", "cm", "km", "ft"], ["s", "min", "h"], ["K", "degC", "degF"]]

    @st.composite
    def other_db_case(draw):
        us = draw(st.sampled_from(shared))
        return {
            "other_db": True,
            "ua": draw(st.sampled_from(us)),
            "ub": draw(st.sampled_from(us)),
            "e": draw(st.sampled_from([1, 2, -1, 3, -2])),
            "x": draw(gen.moderate_values(1e-2, 1e3)),
            "y": draw(gen.moderate_values(1e-2, 1e3)),
            "kind": draw(st.sampled_from(["scalar", "list", "ndarray"])),
            "op": draw(st.sampled_from(["+", "-"])),
        }

    return pair_case(), affine_case(), affine_derived_case(), mixed_case(), other_db_case()


def _fix_case(case):
    from collections import OrderedDict

    case = dict(case)
    for k in ("da", "db"):
        if k in case:
            case[k] = OrderedDict((c, list(v)) for c, v in case[k].items())
    return case


def run_shard(spec, ctx):
    db = env.new_db("posc")
    with env.pushed(db):
        ch = Checker(ctx, db)
        pair_case, affine_case, affine_derived_case, mixed_case, other_db_case = _strategies(ch)

        def t5():
            @given(other_db_case)
            def test(case):
                core.guarded(ctx, ch.check_other_database_current, case)

            return test


        def t4():
            @given(mixed_case)
            def test(case):
                core.guarded(ctx, ch.check_mixed, case)

            return test

        seed = spec["seed"] * 1000 + spec["shard"]

        def t3():
            @given(affine_derived_case)
            def test(case):
                core.guarded(ctx, ch.check_pair, _fix_case(case))

            return test

        def t1():
            @given(pair_case)
            def test(case):
                core.guarded(ctx, ch.check_pair, _fix_case(case))

            return test

        def t2():
            @given(affine_case)
            def test(case):
                core.guarded(ctx, ch.check_affine, case)

            return test

        core.hunt(ctx, t1, seed, spec["n"])
        core.hunt(ctx, t2, seed + 1, max(100, spec["n"] // 3))
        core.hunt(ctx, t3, seed + 2, max(100, spec["n"] // 3))
        core.hunt(ctx, t4, seed + 3, max(100, spec["n"] // 4))
        core.hunt(ctx, t5, seed + 4, max(60, spec["n"] // 8))


def replay(case, ctx):
    db = env.new_db("posc")
    with env.pushed(db):
        ch = Checker(ctx, db)
        if case.get("other_db"):
            return core.replay_guarded(ctx, ch.check_other_database_current, case)
        if case.get("mixed"):
            return core.replay_guarded(ctx, ch.check_mixed, case)
        if "da" in case:
            return core.replay_guarded(ctx, ch.check_pair, _fix_case(case))
        return core.replay_guarded(ctx, ch.check_affine, case)
