"""C04 — multiply / divide: dimension exponents add, base-unit magnitudes multiply."""
import math

from hypothesis import given, strategies as st

from bv import core, dims, env, gen
from bv.model import UnitModel, dims_mul, dims_of_quantity, log_mag_of, mag_of, relclose

PID = "C04"
RULE = (
    "Hypothesis generates expression trees (st.recursive, depth<=4 quick / <=6 thorough) over leaves "
    "Scalar(value, unit, category) with scale-only units from all table types with >=2 such units (several "
    "units and categories per type, weighted to common types), operators * / // **n (n=1..3), finite non-zero "
    "values; evaluated with Scalars, with Arrays (list/tuple/ndarray leaves of one length) and with bare "
    "Quantity operators. Oracle: the same tree evaluated in an independent dimensional-analysis model "
    "(exponent vector per quantity type, magnitude in base units from per-unit slopes): dims equal, no zero "
    "exponent kept, a/a empty with unit '', magnitude within rel 1e-9; a//b within one result unit below the true "
    "quotient; metamorphic: mag(a*b)=mag(b*a), mag((a*b)/b)=mag(a), a op b computed twice on the same operand "
    "objects gives the model amount both times, every tree with a unit conversion evaluates identically on the "
    "long-lived database of the shard and on a freshly built one, and a battery of products matching one of its unit "
    "pairs in both directions with exponents +-2, +-3 agrees with the model on the long-lived database, a**n == n-fold product (n up to 3 inside the trees, up to 8 on single Scalars). Also a*b, b*a, a/b, b/a, a*a, a/a, (a*b)/b with a created directly on a derived quantity that writes one quantity type in two units under two categories (m.km, m3/ft3; Scalar, list, ndarray), each computed twice; products and quotients of two Arrays in different container kinds (list, tuple, float64 / int64 / float32 ndarray). One shard runs the trees on the simple length/time filler (units given by formula strings). A squared Array operand is used in two products and a quotient: same values afterwards, same product both times. The product and the quotient of an Array with a squared Array of another container kind have the model magnitude. Non-trivial = some "
    "operand is converted (shared type, different units) with exponent != 1, or >= 3 leaves; distinct key = tree."
)
ASSUMPTIONS = ["UnitModel slopes come from single-unit float conversions (validated by C01)", "**0 and negative powers are outside the statement"]
BUDGET_S = {"quick": 120, "thorough": 1200}
N = {"quick": 1200, "thorough": 20000}
DEPTH = {"quick": 4, "thorough": 6}
SHARDS = {"quick": 6, "thorough": 16}


def plan(tier, seed):
    specs = [{"tier": tier, "seed": seed, "n": N[tier], "depth": DEPTH[tier]} for _ in range(SHARDS[tier])]
    # the same trees on the library's simple length/time filler (units given by formula strings instead of table
    # coefficients): what is matched and how does not depend on how a unit was registered
    specs.append({"tier": tier, "seed": seed, "n": N[tier] // 2, "depth": DEPTH[tier], "db": "simple"})
    return specs


class Skip(Exception):
    pass


class Checker:
    def __init__(self, ctx, db):
        self.ctx = ctx
        self.db = db
        self.um = UnitModel(db)
        self.pool = dims.DimPool(db, self.um)

    # -- model ------------------------------------------------------------------------------
    def model(self, t, k):
        """(mag of element k, dims) of tree t in the model; `//` nodes are resolved by the caller."""
        if t[0] == "leaf":
            _, v, u, c = t
            v = v[k] if isinstance(v, (list, tuple)) else v
            return v * self.um.slope[u], {self.um.qt[u]: 1}
        if t[0] == "**":
            m, d = self.model(t[1], k)
            try:
                m = m ** t[2]
            except OverflowError:
                m = float("inf")
            return m, {q: e * t[2] for q, e in d.items()}
        (ma, da), (mb, dbb) = self.model(t[1], k), self.model(t[2], k)
        if t[0] == "*":
            return ma * mb, dims_mul(da, dbb, 1)
        if t[0] == "/":
            return ma / mb, dims_mul(da, dbb, -1)
        raise Skip("floor division inside the model")

    # -- barril -----------------------------------------------------------------------------
    def leaf_obj(self, t, kind):
        from barril.units import Array, ObtainQuantity, Scalar

        _, v, u, c = t
        if kind == "scalar":
            return Scalar(v if not isinstance(v, (list, tuple)) else v[0], u, c)
        if kind == "quantity":
            return ObtainQuantity(u, c)
        return Array(gen.as_container(kind, v), u, c)

    def ev(self, t, kind):
        if t[0] == "leaf":
            return self.leaf_obj(t, kind)
        if t[0] == "**":
            base = self.ev(t[1], kind)
            if kind in ("scalar", "quantity"):
                return base ** t[2]
            # Array defines no ** operator: the statement's n-fold product
            prod = base
            for _ in range(t[2] - 1):
                prod = prod * base
            return prod
        a, b = self.ev(t[1], kind), self.ev(t[2], kind)
        if t[0] == "*":
            return a * b
        if t[0] == "/":
            return a / b
        return a // b

    def values_of(self, obj, kind):
        if kind == "scalar":
            return [obj.GetValue()]
        return [float(x) for x in obj.GetValues()]

    def check_result(self, case, t, obj, kind, what):
        """obj (barril) against the model of tree t (t has no `//`)."""
        ctx, db = self.ctx, self.db
        q = obj if kind == "quantity" else obj.GetQuantity()
        got_dims = dims_of_quantity(db, q)
        n = 1 if kind in ("scalar", "quantity") else len(obj.GetValues())
        mm, md = self.model(t, 0)
        ctx.ev()
        if got_dims != md:
            ctx.fail("dims_wrong", case, "%s: %s has exponents %r, model %r (quantity %r)" % (what, kind, got_dims, md, q))
        for c, (u, e) in q.GetCategoryToUnitAndExps().items():
            if e == 0:
                ctx.fail("zero_exponent_kept", case, "%s: factor %r of %r has exponent 0" % (what, c, q))
        tot = {}
        for c, (u, e) in q.GetCategoryToUnitAndExps().items():
            qt = db.GetCategoryQuantityType(c)
            tot[qt] = tot.get(qt, 0) + e
        for qt, e in tot.items():
            if e == 0:
                ctx.fail("zero_exponent_kept", case, "%s: quantity type %r has total exponent 0 but its factors are still listed in %r" % (what, qt, q))
        if not md and q.GetUnit() != "":
            ctx.fail("dimensionless_result_has_unit", case, "%s: dimensionless result renders unit %r" % (what, q.GetUnit()))
        # one unit per quantity type (otherwise "exponent per quantity type" has no single magnitude)
        if kind == "quantity":
            return
        vals = self.values_of(obj, kind)
        if len(vals) != n:
            ctx.fail("length_changed", case, "%s: %d values" % (what, len(vals)))
        for k, v in enumerate(vals):
            mm, _ = self.model(t, k)
            gm = mag_of(self.um, q, v)
            if not (math.isfinite(mm) and 1e-250 < abs(mm) < 1e250):
                ctx.cls("skipped_extreme_magnitude")
                continue
            if not relclose(gm, mm, 1e-9):
                # slope**exponent may over/underflow in the model's own arithmetic although the amount is moderate
                # (barn**12): compare in log space before alarming
                lm = log_mag_of(self.um, q, v)
                if lm is not None and mm != 0 and lm[0] == (1 if mm > 0 else -1) and abs(lm[1] - math.log10(abs(mm))) < 1e-7:
                    ctx.cls("magnitude_compared_in_log_space")
                    continue
                ctx.fail("magnitude_wrong", case, "%s: %s evaluates to %r = %r in base units, model %r (element %d)" % (what, kind, obj, gm, mm, k))

    def check_tree(self, case):
        ctx = self.ctx
        t, kind = case["tree"], case["kind"]
        leaves = dims.tree_leaves(t)
        if dims.tree_size_exp(t) > 12:
            ctx.cls("skipped_exponent_bound")
            return
        has_floor = "'//'" in repr(t)
        # classes / non-triviality
        units_by_qt = {}
        for _, v, u, c in leaves:
            units_by_qt.setdefault(self.um.qt[u], set()).add(u)
        converted = any(len(s) > 1 for s in units_by_qt.values())
        ctx.cls("kind_" + kind)
        ctx.cls("depth_%d" % dims.tree_depth(t))
        if converted:
            ctx.cls("with_unit_conversion")
        cats_by_qt = {}
        for _, v, u, c in leaves:
            cats_by_qt.setdefault(self.um.qt[u], set()).add(c)
        if any(len(s) > 1 for s in cats_by_qt.values()):
            ctx.cls("same_type_different_category")
        if (converted and len(leaves) >= 2) or len(leaves) >= 3:
            ctx.nontrivial((repr(t), kind), case)
        if has_floor:
            ctx.cls("with_floor_division")
            self.check_floor(case, t, kind)
            return
        obj = self.ev(t, kind)
        self.check_result(case, t, obj, kind, "tree")
        if converted and kind != "quantity":
            # the shard's database has served every earlier example; the same tree on a freshly built database
            # must give the identical result (nothing remembered from earlier unit matching may leak in)
            fdb = env.new_db(getattr(self, "db_kind", "posc"))
            with env.pushed(fdb):
                fresh = self.ev(t, kind)
                fv = self.values_of(fresh, kind)
                fq = repr(fresh.GetQuantity())
            ctx.ev()
            wv = self.values_of(obj, kind)
            if [float(x) for x in fv] != [float(x) for x in wv] or fq != repr(obj.GetQuantity()):
                ctx.fail("result_depends_on_earlier_operations", case, "the tree evaluates to %r on the long-lived database and to %r on a freshly built one" % (obj, fresh))
            ctx.cls("compared_with_fresh_database")
            self.pair_battery(case, leaves)
        if kind == "scalar" and len(leaves) >= 2:
            # a power of the first leaf obtained through the documented list-of-tuples form of ObtainQuantity (not
            # through arithmetic) multiplies and divides like the same power built by arithmetic
            from barril.units import ObtainQuantity, Scalar

            l0, l1 = leaves[0], leaves[1]
            for e in (2, -1):
                qd = ObtainQuantity([(l0[2], e)], [l0[3]])
                sd = Scalar(qd, 2.0)
                other = self.ev(l1, "scalar")
                mt = ("**", ("leaf", 2.0 ** (1.0 / e) if e > 0 else 0.5, l0[2], l0[3]), abs(e)) if e > 0 else None
                for what, fn in (("q*x", lambda: sd * other), ("x*q", lambda: other * sd), ("x/q", lambda: other / sd)):
                    ctx.ev()
                    try:
                        r = fn()
                    except Exception as ex:
                        where = core.tree_frame(ex)
                        if where is None:
                            raise
                        ctx.fail("arithmetic_on_obtained_derived_quantity_raises:%s" % type(ex).__name__, dict(case, obtained=[l0[2], l0[3], e]), "%s with q = Scalar(ObtainQuantity([(%r,%d)],[%r]), 2.0) and x = %r raised %s: %s" % (what, l0[2], e, l0[3], other, type(ex).__name__, str(ex)[:150]))
                        continue
                    # magnitude against the model: 2 * slope(u)^e combined with the other leaf
                    m_q = 2.0 * self.um.slope[l0[2]] ** e
                    m_x = l1[1] * self.um.slope[l1[2]] if not isinstance(l1[1], (list, tuple)) else l1[1][0] * self.um.slope[l1[2]]
                    want = m_q * m_x if what != "x/q" else m_x / m_q
                    gm = mag_of(self.um, r.GetQuantity(), r.GetValue())
                    if math.isfinite(want) and 1e-250 < abs(want) < 1e250 and not relclose(gm, want, 1e-9):
                        ctx.fail("magnitude_wrong", dict(case, obtained=[l0[2], l0[3], e]), "%s with an obtained %s^%d quantity: %r = %r in base units, model %r" % (what, l0[2], e, r, gm, want))
            ctx.cls("obtained_derived_quantity_arithmetic")
        _, md = self.model(t, 0)
        if not md:
            ctx.cls("cancels_to_dimensionless")
        # metamorphic relations at the root
        if t[0] in ("*", "/") and kind != "quantity":
            a, b = self.ev(t[1], kind), self.ev(t[2], kind)
            # the same operand objects used twice: the second result is the same amount again (an operation that
            # rescales an operand's container while matching units shows up here, whatever the container kind)
            first = a * b if t[0] == "*" else a / b
            again = a * b if t[0] == "*" else a / b
            self.check_result(case, t, first, kind, "a op b (operands reused, 1st)")
            self.check_result(case, t, again, kind, "a op b (operands reused, 2nd)")
            if t[0] == "*":
                ba = b * a
                self.check_result(case, ("*", t[2], t[1]), ba, kind, "b*a")
                back = obj / b
                self.check_result(case, t[1], back, kind, "(a*b)/b")
            else:
                back = obj * b
                self.check_result(case, t[1], back, kind, "(a/b)*b")
        if t[0] == "**":
            a = self.ev(t[1], kind)
            prod = a
            for _ in range(t[2] - 1):
                prod = prod * a
            qo = obj if kind == "quantity" else obj.GetQuantity()
            qp = prod if kind == "quantity" else prod.GetQuantity()
            ctx.ev()
            if dims_of_quantity(self.db, qo) != dims_of_quantity(self.db, qp):
                ctx.fail("power_not_repeated_product", case, "a**%d has quantity %r, the %d-fold product %r" % (t[2], qo, t[2], qp))
        if kind != "quantity":
            aa = self.ev(("/", t, t), kind)
            ctx.ev()
            qa = aa.GetQuantity()
            if dims_of_quantity(self.db, qa) or qa.GetUnit() != "":
                ctx.fail("self_division_not_dimensionless", case, "x/x has quantity %r unit %r" % (qa, qa.GetUnit()))
            for v in self.values_of(aa, kind):
                if not relclose(v, 1.0, 1e-9):
                    ctx.fail("self_division_not_one", case, "x/x = %r" % (aa,))

    def pair_battery(self, case, leaves):
        """For one pair (u, v) of different units of one quantity type met in the tree: a fixed battery of products
        that match the pair in both directions, with positive and negative exponents 2 and 3, on the long-lived
        database - each against the model.  Whatever earlier matching left behind must not show."""
        by_qt = {}
        for leaf in leaves:
            by_qt.setdefault(self.um.qt[leaf[2]], []).append(leaf)
        for qt, ls in sorted(by_qt.items()):
            us = sorted(set(l[2] for l in ls))
            if len(us) < 2 or qt == "time":
                continue
            U = next(l for l in ls if l[2] == us[0])
            V = next(l for l in ls if l[2] == us[1])
            U = ("leaf", 2.0, U[2], U[3])
            V = ("leaf", 3.0, V[2], V[3])
            S = ("leaf", 5.0, "s", "time")
            trees = [
                ("*", U, ("**", V, 2)),
                ("*", V, ("/", S, ("**", U, 2))),
                ("*", V, ("**", U, 3)),
                ("*", U, ("/", S, ("**", V, 3))),
                ("/", U, ("**", V, 2)),
                ("*", V, ("**", U, 2)),
                ("*", U, ("/", S, ("**", V, 2))),
            ]
            for k, bt in enumerate(trees):
                obj = self.ev(bt, "scalar")
                self.check_result(dict(case, battery=[qt, us[0], us[1], k]), bt, obj, "scalar", "pair battery %d for %s/%s" % (k, us[0], us[1]))
            self.ctx.cls("pair_batteries")
            return

    def check_floor(self, case, t, kind):
        """Trees containing `//`: only the top-most floor division whose operands are floor-free is
        checked (a//b <= true quotient, > true quotient - 1 in the result's own units)."""
        ctx = self.ctx
        node = self._first_floor(t)
        if node is None or kind == "quantity":
            ctx.cls("floor_not_checked")
            return
        a, b = self.ev(node[1], kind), self.ev(node[2], kind)
        r = a // b
        q = r.GetQuantity()
        ctx.ev()
        (ma, da), (mb, dbb) = self.model(node[1], 0), self.model(node[2], 0)
        md = dims_mul(da, dbb, -1)
        if dims_of_quantity(self.db, q) != md:
            ctx.fail("dims_wrong", case, "a//b has exponents %r, model %r" % (dims_of_quantity(self.db, q), md))
        unit_mag = mag_of(self.um, q, 1.0)
        for k, v in enumerate(self.values_of(r, kind)):
            ma, _ = self.model(node[1], k)
            mb, _ = self.model(node[2], k)
            true_q = (ma / mb) / unit_mag
            if not (math.isfinite(true_q) and abs(true_q) < 1e12):
                ctx.cls("skipped_extreme_magnitude")
                continue
            tol = 1e-9 * max(1.0, abs(true_q))
            if v != math.floor(v) or v > true_q + tol or v <= true_q - 1 - tol:
                ctx.fail("floor_division_wrong", case, "a//b = %r; true quotient in the result's units is %r (a=%r, b=%r)" % (r, true_q, a, b))

    def check_mixed(self, case):
        """a = amount created directly on a derived quantity that writes one quantity type in two units under two
        categories (m.km, m3/ft3 ...); b = an ordinary amount.  Products and quotients still add the exponents per
        quantity type and multiply the base magnitudes; a/a is dimensionless."""
        from collections import OrderedDict

        from barril.units import Array, Quantity, Scalar

        ctx, db, um = self.ctx, self.db, self.um
        fa, (ub, cb), kind, x, y = case["a"], case["b"], case["kind"], case["x"], case["y"]
        qa = Quantity.CreateDerived(OrderedDict((c, [u, e]) for c, u, e in fa))
        if kind == "scalar":
            a, b = Scalar.CreateWithQuantity(qa, x), Scalar(y, ub, cb)
        else:
            a, b = Array.CreateWithQuantity(qa, gen.as_container(kind, [x, 2 * x])), Array(gen.as_container(kind, [y, 3 * y]), ub, cb)
        ma = x
        da = {}
        for c, u, e in fa:
            ma *= um.slope[u] ** e
            da[um.qt[u]] = da.get(um.qt[u], 0) + e
        da = {k: v for k, v in da.items() if v}
        mb, dbb = y * um.slope[ub], {um.qt[ub]: 1}
        ctx.cls("mixed_unit_operand")
        ctx.nontrivial(("mixed", repr(fa), ub, cb, kind), case)
        for what, fn, mm, md in (
            ("a*b", lambda: a * b, ma * mb, dims_mul(da, dbb, 1)),
            ("b*a", lambda: b * a, ma * mb, dims_mul(da, dbb, 1)),
            ("a/b", lambda: a / b, ma / mb, dims_mul(da, dbb, -1)),
            ("b/a", lambda: b / a, mb / ma, dims_mul(dbb, da, -1)),
            ("a*a", lambda: a * a, ma * ma, dims_mul(da, da, 1)),
            ("a/a", lambda: a / a, 1.0, {}),
            ("(a*b)/b", lambda: (a * b) / b, ma, da),
        ) + (
            # a**n is the n-fold product (Scalars only: Array defines no ** operator)
            (("a**2", lambda: a**2, ma * ma, dims_mul(da, da, 1)), ("a**3", lambda: a**3, ma * ma * ma, dims_mul(dims_mul(da, da, 1), da, 1)))
            if kind == "scalar"
            else ()
        ):
            r = fn()
            ctx.ev()
            q = r.GetQuantity()
            got_dims = dims_of_quantity(db, q)
            if got_dims != md:
                ctx.fail("dims_wrong:mixed_unit_operand", case, "%s with a=%r, b=%r has exponents %r, model %r (quantity %r)" % (what, a, b, got_dims, md, q))
            if not md and q.GetUnit() != "":
                ctx.fail("dimensionless_result_has_unit", case, "%s: dimensionless result renders unit %r" % (what, q.GetUnit()))
            v0 = r.GetValue() if kind == "scalar" else float(list(r.GetValues())[0])
            gm = mag_of(um, q, v0)
            if math.isfinite(mm) and 1e-250 < abs(mm) < 1e250 and not relclose(gm, mm, 1e-9):
                ctx.fail("magnitude_wrong:mixed_unit_operand", case, "%s with a=%r, b=%r evaluates to %r = %r in base units, model %r" % (what, a, b, r, gm, mm))
            # the same operands once more
            r2 = fn()
            v2 = r2.GetValue() if kind == "scalar" else float(list(r2.GetValues())[0])
            if v2 != v0 or repr(r2.GetQuantity()) != repr(q):
                ctx.fail("product_not_repeatable:mixed_unit_operand", case, "%s computed twice on the same operands gives %r and then %r" % (what, r, r2))

    def check_operand_reuse_arrays(self, a, b, case):
        """a squared Array operand (its unit has to be matched under an exponent) is used in two products and a
        quotient: it holds the same values afterwards and the second product equals the first"""
        ctx = self.ctx
        b2 = b * b
        before = [float(t) for t in b2.GetValues()]
        r1 = a * b2
        v1 = [float(t) for t in r1.GetValues()]
        mid = [float(t) for t in b2.GetValues()]
        r2 = a * b2
        q1 = a / b2
        ctx.ev()
        after = [float(t) for t in b2.GetValues()]
        if before != mid or before != after:
            ctx.fail("operand_changed_by_product", case, "b*b = %r held %r before it was multiplied with %r and holds %r afterwards" % (b2, before, a, after))
        um = self.um
        (ua, _ca, _ka, va), (ub, _cb, _kb, vb) = case["a"], case["b"]
        if "int" not in _ka + _kb:
            for x, y, g, gq in zip(va, vb, v1, [float(t) for t in q1.GetValues()]):
                want = x * um.slope[ua] * (y * um.slope[ub]) ** 2
                wantq = x * um.slope[ua] / (y * um.slope[ub]) ** 2
                tol = 1e-5 if "f32" in _ka + _kb else 1e-9
                if "f32" in _ka + _kb and not (1e-30 < abs(g) < 1e30 and 1e-30 < abs(gq) < 1e30):
                    continue
                if 1e-250 < abs(want) < 1e250 and not relclose(mag_of(um, r1.GetQuantity(), g), want, tol):
                    ctx.fail("magnitude_wrong:array_times_squared_array:%s_%s" % tuple(sorted((_ka, _kb))), case, "%r * (%r squared) = %r: %r in base units, model %r" % (a, b, r1, mag_of(um, r1.GetQuantity(), g), want))
                if 1e-250 < abs(wantq) < 1e250 and not relclose(mag_of(um, q1.GetQuantity(), gq), wantq, tol):
                    ctx.fail("magnitude_wrong:array_over_squared_array:%s_%s" % tuple(sorted((_ka, _kb))), case, "%r / (%r squared) = %r: %r in base units, model %r" % (a, b, q1, mag_of(um, q1.GetQuantity(), gq), wantq))
        if [float(t) for t in r2.GetValues()] != v1 or repr(r2.GetQuantity()) != repr(r1.GetQuantity()):
            ctx.fail("product_not_repeatable:arrays", case, "%r * %r gives %r and then %r" % (a, b2, r1, r2))
        ctx.cls("array_operand_reused")

    def check_high_powers(self, case):
        """a**n for n up to 8 is the n-fold product (the trees stop at n = 3)"""
        from barril.units import Scalar

        ctx, db, um = self.ctx, self.db, self.um
        u, c, x = case["u"], case["c"], case["x"]
        a = Scalar(x, u, c)
        prod = a
        for n in range(2, 9):
            prod = prod * a
            r = a**n
            ctx.ev()
            if dims_of_quantity(db, r.GetQuantity()) != {um.qt[u]: n}:
                ctx.fail("power_dims_wrong", dict(case, n=n), "%r ** %d has exponents %r" % (a, n, dims_of_quantity(db, r.GetQuantity())))
            want = (x * um.slope[u]) ** n
            got = mag_of(um, r.GetQuantity(), r.GetValue())
            if math.isfinite(want) and 1e-250 < abs(want) < 1e250 and (not relclose(got, want, 1e-9) or not relclose(mag_of(um, prod.GetQuantity(), prod.GetValue()), want, 1e-9)):
                ctx.fail("power_is_not_the_n_fold_product", dict(case, n=n), "%r ** %d = %r (%r in base units), the %d-fold product is %r, the model %r" % (a, n, r, got, n, prod, want))
        ctx.cls("high_powers_checked")

    def check_container_mix(self, case):
        """two Arrays in different container kinds, one of them possibly an integer ndarray: the amounts of either
        operand are what they are, whatever container or dtype its partner has"""
        from barril.units import Array

        ctx, db, um = self.ctx, self.db, self.um
        (ua, ca, ka, va), (ub, cb, kb, vb) = case["a"], case["b"]
        if ka in ("ndarray_int", "ndarray_i32"):
            va = [float(round(x)) or 1.0 for x in va]
        if kb in ("ndarray_int", "ndarray_i32"):
            vb = [float(round(x)) or 1.0 for x in vb]
        n = min(len(va), len(vb))
        va, vb = va[:n], vb[:n]
        a = Array(gen.as_container(ka, va), ua, ca)
        b = Array(gen.as_container(kb, vb), ub, cb)
        ctx.cls("operands_in_different_containers" if ka != kb else "operands_in_one_container_kind")
        if "int" not in ka + kb:
            self.check_operand_reuse_arrays(a, b, case)
        ctx.nontrivial(("containers", ua, ub, ka, kb), case)
        da, dbb = {um.qt[ua]: 1}, {um.qt[ub]: 1}
        for what, fn, md, mag in (
            ("a*b", lambda: a * b, dims_mul(da, dbb, 1), lambda x, y: x * um.slope[ua] * y * um.slope[ub]),
            ("b*a", lambda: b * a, dims_mul(da, dbb, 1), lambda x, y: x * um.slope[ua] * y * um.slope[ub]),
            ("a/b", lambda: a / b, dims_mul(da, dbb, -1), lambda x, y: (x * um.slope[ua]) / (y * um.slope[ub])),
            ("b/a", lambda: b / a, dims_mul(dbb, da, -1), lambda x, y: (y * um.slope[ub]) / (x * um.slope[ua])),
        ):
            r = fn()
            ctx.ev()
            q = r.GetQuantity()
            if dims_of_quantity(db, q) != md:
                ctx.fail("dims_wrong:container_mix", case, "%s with a=%r, b=%r has exponents %r, model %r" % (what, a, b, dims_of_quantity(db, q), md))
            got = [float(t) for t in r.GetValues()]
            if len(got) != n:
                ctx.fail("length_changed", case, "%s: %d values from operands of %d" % (what, len(got), n))
            for x, y, g in zip(va, vb, got):
                mm = mag(x, y)
                if "f32" in ka + kb and not (1e-30 < abs(g) < 1e30):
                    ctx.cls("skipped_outside_float32_range")
                    continue
                # (a float32 operand keeps the arithmetic in float32: seven digits)
                if math.isfinite(mm) and 1e-250 < abs(mm) < 1e250 and not relclose(mag_of(um, q, g), mm, 1e-5 if "f32" in ka + kb else 1e-9):
                    ctx.fail("magnitude_wrong:container_mix:%s_%s" % tuple(sorted((ka, kb))), case, "%s with a=%r, b=%r = %r: element %r is %r in base units, model %r" % (what, a, b, r, g, mag_of(um, q, g), mm))
                    break

    def _first_floor(self, t):
        if t[0] == "leaf":
            return None
        if t[0] == "//":
            if "'//'" not in repr(t[1]) and "'//'" not in repr(t[2]):
                return t
        for sub in t[1:]:
            if isinstance(sub, tuple):
                r = self._first_floor(sub)
                if r is not None:
                    return r
        return None


def _case_strategy(ch, depth):
    vals = gen.moderate_values(1e-2, 1e2)
    tree = dims.tree_strategy(ch.pool, max_depth=depth, values=vals)

    @st.composite
    def case(draw):
        t = draw(tree)
        kind = draw(st.sampled_from(["scalar", "scalar", "scalar", "list", "tuple", "ndarray", "quantity"]))
        if kind in ("list", "tuple", "ndarray"):
            n = draw(st.integers(1, 3))
            extra = draw(st.lists(vals, min_size=64, max_size=64))
            it = iter(extra)

            def widen(t):
                if t[0] == "leaf":
                    return ("leaf", [t[1]] + [next(it) for _ in range(n - 1)], t[2], t[3])
                if t[0] == "**":
                    return ("**", widen(t[1]), t[2])
                return (t[0], widen(t[1]), widen(t[2]))

            t = widen(t)
        return {"tree": t, "kind": kind}

    return case()


def _mixed_strategy(ch):
    pool = ch.pool
    qts = [qt for qt in pool.qts if len(pool.cats[qt]) >= 2 and len(pool.units[qt]) >= 2]
    fav = [qt for qt in pool.fav if qt in qts]

    @st.composite
    def case(draw):
        qt = draw(st.one_of(st.sampled_from(fav), st.sampled_from(qts))) if fav else draw(st.sampled_from(qts))
        c1, c2 = draw(st.permutations(pool.cats[qt]))[:2]
        u1, u2 = draw(st.permutations(pool.units[qt]))[:2]
        e1, e2 = draw(st.sampled_from([(1, 1), (1, 2), (2, 1), (2, -1), (1, -2), (1, -1)]))
        fa = [[c1, u1, e1], [c2, u2, e2]]
        if draw(st.booleans()):
            qt3 = draw(pool.qt_strategy())
            if qt3 != qt:
                fa.append([draw(st.sampled_from(pool.cats[qt3])), draw(st.sampled_from(pool.units[qt3])), draw(st.sampled_from([1, -1, 2]))])
        qtb = draw(st.sampled_from([qt, qt, draw(pool.qt_strategy())]))
        return {
            "mixed": True,
            "a": fa,
            "b": [draw(st.sampled_from(pool.units[qtb])), draw(st.sampled_from(pool.cats[qtb]))],
            "kind": draw(st.sampled_from(["scalar", "scalar", "list", "ndarray"])),
            "x": draw(gen.moderate_values(1e-2, 1e2)),
            "y": draw(gen.moderate_values(1e-2, 1e2)),
        }

    return case()


def _container_mix_strategy(ch):
    pool = ch.pool
    kinds = st.sampled_from(["list", "tuple", "ndarray", "ndarray_int", "ndarray_f32", "ndarray_int"])

    @st.composite
    def operand(draw, qt):
        return [draw(st.sampled_from(pool.units[qt])), draw(st.sampled_from(pool.cats[qt])), draw(kinds), draw(st.lists(gen.moderate_values(1e-2, 1e2), min_size=1, max_size=3))]

    @st.composite
    def case(draw):
        qta = draw(pool.qt_strategy())
        qtb = draw(st.sampled_from([qta, qta, draw(pool.qt_strategy())]))
        a, b = draw(operand(qta)), draw(operand(qtb))
        if "f32" in a[2] or "f32" in b[2]:
            # float32 holds 7 digits: keep the amounts exactly representable there
            a[3] = [float(round(x * 4) / 4) or 0.25 for x in a[3]]
            b[3] = [float(round(x * 4) / 4) or 0.25 for x in b[3]]
        return {"container_mix": True, "a": a, "b": b}

    return case()


def _fix_tree(t):
    if isinstance(t, (list, tuple)):
        if t and t[0] == "leaf":
            v = t[1]
            return ("leaf", list(v) if isinstance(v, (list, tuple)) else v, t[2], t[3])
        if t and t[0] == "**":
            return ("**", _fix_tree(t[1]), t[2])
        return (t[0], _fix_tree(t[1]), _fix_tree(t[2]))
    return t


def run_shard(spec, ctx):
    kind = spec.get("db", "posc")
    db = env.new_db(kind)
    with env.pushed(db):
        ch = Checker(ctx, db)
        ch.db_kind = kind
        strat = _case_strategy(ch, spec["depth"])
        if kind != "posc":
            strat = strat.map(lambda c: dict(c, db=kind))
            ctx.cls("shard_on_%s_database" % kind)

        def mk():
            @given(strat)
            def test(case):
                # a//b can be 0 and then be divided by: not an error of the library
                core.guarded(ctx, ch.check_tree, case, allowed=(ZeroDivisionError,))

            return test

        core.hunt(ctx, mk, spec["seed"] * 1000 + spec["shard"], spec["n"])
        if kind != "posc":
            return
        mixed = _mixed_strategy(ch)

        def mk2():
            @given(mixed)
            def test(case):
                core.guarded(ctx, ch.check_mixed, case)

            return test

        core.hunt(ctx, mk2, spec["seed"] * 1000 + spec["shard"] + 500, max(100, spec["n"] // 6))
        hp = st.fixed_dictionaries({"high_powers": st.just(True), "x": gen.moderate_values(0.5, 20.0)}).flatmap(
            lambda d: ch.pool.leaf_strategy().map(lambda leaf: dict(d, u=leaf[2], c=leaf[3]))
        )

        def mk4():
            @given(hp)
            def test(case):
                core.guarded(ctx, ch.check_high_powers, case)

            return test

        core.hunt(ctx, mk4, spec["seed"] * 1000 + spec["shard"] + 900, max(60, spec["n"] // 12))
        mix = _container_mix_strategy(ch)

        def mk3():
            @given(mix)
            def test(case):
                core.guarded(ctx, ch.check_container_mix, case)

            return test

        core.hunt(ctx, mk3, spec["seed"] * 1000 + spec["shard"] + 700, max(100, spec["n"] // 6))


def replay(case, ctx):
    db = env.new_db(case.get("db", "posc"))
    with env.pushed(db):
        ch = Checker(ctx, db)
        ch.db_kind = case.get("db", "posc")
        if case.get("mixed"):
            return core.replay_guarded(ctx, ch.check_mixed, case)
        if case.get("high_powers"):
            return core.replay_guarded(ctx, ch.check_high_powers, case)
        if case.get("container_mix"):
            return core.replay_guarded(ctx, ch.check_container_mix, case)
        case = {"tree": _fix_tree(case["tree"]), "kind": case["kind"]}
        return core.replay_guarded(ctx, ch.check_tree, case)
