"""C05 — dimensionally incompatible operations fail loudly and change nothing."""
from collections import OrderedDict

from hypothesis import given, strategies as st

from bv import core, dims, env, gen, legacy, snapshot
from bv.model import UnitModel
from bv.util import partition

PID = "C05"
RULE = (
    "(a) Hypothesis generates pairs of amounts with different dimension vectors, biased to near misses (one exponent "
    "changed, an extra factor, the reciprocal, m2 'area' against length**2, another simple type): + and - on Scalar, "
    "Array(list/tuple/ndarray), FixedArray and db.Sum/Subtract, and < <= > >= on Scalar and FractionScalar must raise "
    "UnitsError/TypeError/ValueError and return nothing, operands' deep snapshots unchanged. (b) cross-type unit pairs "
    "(all 2.36 M ordered pairs in thorough for db.Convert, a rotation-selected subset in quick; the object routes "
    "Scalar.GetValue/CreateCopy, Array.GetValues/CreateCopy (list, ndarray), FixedArray.IndexAsScalar/ChangingIndex, "
    "FractionScalar.GetValue, Quantity.Convert/ConvertScalarValue (also on a squared derived quantity), db.Convert by category name, on containers, in the exponent-list form with exponents 1, 2, -1, 3 and with the amounts 0, -0.0, [0, 0] and [] on a "
    "subset; targets also written in their legacy spellings; each pair is first offered to the exempt 'Unknown' quantity "
    "type, and a pair that is valid for its own type is converted there and then offered under other quantity types) must raise. (c) (category, unit) pairs of different quantity types (all 501 k in thorough for "
    "ObtainQuantity, a subset for Scalar/Array/FixedArray/FractionScalar construction in every argument order) must "
    "raise; the same for categories registered at run time under the name of another quantity type. (d) generated sequences interleaving such rejected calls with valid operations on a pool: after every "
    "rejected call the full registry snapshot (all public getters + both conversion functions sampled), every pool "
    "object's snapshot, the soundness of the memoised verdicts/cached quantities and the results of a fixed battery of "
    "valid operations are identical. Units used without a category before their default category is re-bound to another quantity type are rejected afterwards in the category-less forms too. The reciprocal or another power of an amount does not convert to a unit of the same quantity type (exponent-list form with opposite signs, (1/Scalar).GetValue(unit)); rejected sums of operands that belong to another database leave the current database current. The validating constructor of derived quantities (Quantity.CreateDerived) is a construction route too: one factor under exponents 1, 2, -1 and next to a valid factor. Non-trivial = the two dimension vectors share a quantity type or a unit-symbol "
    "prefix (near miss); key = (route, dims a, dims b) resp. (route, unit, target)."
)
ASSUMPTIONS = [
    "the empty (dimensionless) quantity and the 'Unknown' quantity type are exempt by the statement and never generated as operands/targets",
    "Convert(q,u,u,x) with one unit on both sides is not a cross-type conversion",
    "FixedArray.ChangingIndex(i, Scalar, use_value_unit=True) adopts the scalar's quantity by design and is not a rejected route",
]
BUDGET_S = {"quick": 150, "thorough": 1500}
OK_EXC = None  # filled lazily: (UnitsError, TypeError, ValueError)


def _ok_exc():
    global OK_EXC
    if OK_EXC is None:
        from barril.units.unit_database import UnitsError

        OK_EXC = (UnitsError, TypeError, ValueError)
    return OK_EXC


def plan(tier, seed):
    specs = []
    n = 6 if tier == "quick" else 12
    for i in range(n):
        specs.append({"part": "sweep", "i": i, "n": n, "tier": tier, "seed": seed})
    for i in range(3 if tier == "quick" else 4):
        specs.append({"part": "pairs", "tier": tier, "seed": seed, "examples": 500 if tier == "quick" else 20000})
    for i in range(3 if tier == "quick" else 4):
        specs.append({"part": "machine", "tier": tier, "seed": seed, "examples": 40 if tier == "quick" else 1500})
    return specs


def must_raise(ctx, key, case, fn, what):
    """fn() must raise one of the loud error families; returning anything is a violation."""
    ctx.ev()
    try:
        r = fn()
    except _ok_exc() as e:
        ctx.cls("raised_%s" % type(e).__name__)
        return True
    except Exception as e:
        if isinstance(e, NameError) and core.tree_frame(e) is None:
            raise  # a slip of the harness itself, not an answer of the library
        ctx.fail("wrong_exception_family:%s:%s" % (key, type(e).__name__), case, "%s raised %s: %s (a units/type error is required)" % (what, type(e).__name__, str(e)[:200]))
        return False
    ctx.fail("incompatible_operation_returned:%s" % key, case, "%s returned %r instead of raising" % (what, r))
    return False


def must_raise_rec(ctx, key, case, fn, what):
    """collect-mode variant for the exhaustive sweeps"""
    ctx.ev()
    try:
        r = fn()
    except _ok_exc():
        return
    except Exception as e:
        if isinstance(e, NameError) and core.tree_frame(e) is None:
            raise  # a slip of the harness itself, not an answer of the library
        ctx.record("wrong_exception_family:%s:%s" % (key, type(e).__name__), case, "%s raised %s: %s (a units/type error is required)" % (what, type(e).__name__, str(e)[:200]))
        return
    ctx.record("incompatible_operation_returned:%s" % key, case, "%s returned %r instead of raising" % (what, r))


# =============================================================================================
# battery of valid operations: must give identical results before/after rejected calls


def battery(db):
    import numpy

    from barril.units import Array, FixedArray, FractionScalar, ObtainQuantity, Scalar

    out = []
    out.append(repr(db.Convert("length", "m", "ft", 3.5)))
    out.append(repr(db.Convert("temperature", "degC", "degF", [1.0, 2.0])))
    out.append(repr(db.Convert("well diameter" if db.IsValidCategory("well diameter") else "length", "in", "cm", 2.0)))
    a, b = Scalar(2.0, "m", "depth" if db.IsValidCategory("depth") else "length"), Scalar(30.0, "cm")
    out.append(repr(a + b))
    out.append(repr(a * b))
    out.append(repr((a / Scalar(2.0, "s")).GetQuantity()))
    out.append(repr(a < b))
    out.append(repr(Array([1.0, 2.0], "m") - Array(numpy.array([1.0, 2.0]), "km")))
    out.append(repr(FixedArray(2, [1.0, 2.0], "kg").GetValues("g")))
    out.append(repr(FractionScalar(1.5, "in").GetValue("cm")))
    out.append(repr(ObtainQuantity("psi", "pressure")))
    out.append(repr(sorted(db.GetValidUnits("time"))[:5]))
    out.append(repr(Scalar("volume").GetValueAndUnit()))
    out.append(repr(db.GetDefaultCategory("degC")))
    out.append(repr(ObtainQuantity("m2").GetQuantityType()))
    return out


# =============================================================================================
# (b) + (c): sweeps


class Sweep:
    def __init__(self, ctx, db):
        self.ctx = ctx
        self.db = db
        cats = {}
        for c in db.IterCategories():
            cats.setdefault(db.GetCategoryQuantityType(c), []).append(c)
        self.cats = cats
        self.units = [(qt, i.unit) for qt in sorted(db.quantity_types) if qt != "Unknown" for i in db.quantity_types[qt]]
        self.qt_of = {u: qt for qt, u in self.units}
        # legacy spellings are unit strings the API accepts too: cross-type targets written that way must be rejected as well
        self.legacy = sorted(legacy.spellings(db).items())
        for l, cur in self.legacy:
            self.qt_of[l] = self.qt_of[cur]

    def object_routes(self, qt, u, v, c, x):
        import numpy

        from barril.basic.fraction import Fraction, FractionValue
        from barril.units import Array, FixedArray, FractionScalar, ObtainQuantity, Scalar

        db = self.db
        qv = ObtainQuantity(v)
        return [
            ("db.Convert(category)", lambda: db.Convert(c, u, v, x)),
            ("db.Convert(list)", lambda: db.Convert(qt, u, v, [x, x])),
            ("db.Convert(tuple)", lambda: db.Convert(qt, u, v, (x,))),
            ("db.Convert(ndarray)", lambda: db.Convert(qt, u, v, numpy.array([x, 2.0]))),
            ("db.Convert(exponent form)", lambda: db.Convert(qt, [(u, 1)], [(v, 1)], x)),
            ("db.Convert(exponent form, squared)", lambda: db.Convert(qt, [(u, 2)], [(v, 2)], x)),
            ("db.Convert(exponent form, reciprocal)", lambda: db.Convert(qt, [(u, -1)], [(v, -1)], x)),
            # the amount zero (and an empty container) is an amount like any other: the units are checked all the same
            ("db.Convert(zero)", lambda: db.Convert(qt, u, v, 0.0)),
            ("db.Convert(int zero)", lambda: db.Convert(c, u, v, 0)),
            ("db.Convert(list of zeros)", lambda: db.Convert(qt, u, v, [0.0, 0.0])),
            ("db.Convert(empty list)", lambda: db.Convert(qt, u, v, [])),
            ("db.Convert(exponent form, squared, zero)", lambda: db.Convert(qt, [(u, 2)], [(v, 2)], 0.0)),
            ("db.Convert(exponent form, cubed, negative zero)", lambda: db.Convert(qt, [(u, 3)], [(v, 3)], -0.0)),
            ("derived Quantity.Convert(squared)", lambda: (Scalar(x, u, c) * Scalar(1.0, u, c)).GetQuantity().Convert(x, [(v, 2)])),
            ("derived Quantity.Convert(squared, zero)", lambda: (Scalar(0.0, u, c) * Scalar(1.0, u, c)).GetQuantity().Convert(0.0, [(v, 2)])),
            ("Scalar.GetValue(zero)", lambda: Scalar(0.0, u, c).GetValue(v)),
            ("Array.GetValues(zeros)", lambda: Array([0.0, 0.0], u, c).GetValues(v)),
            ("Array.GetValues(empty)", lambda: Array([], u, c).GetValues(v)),
            ("Scalar.GetValue", lambda: Scalar(x, u, c).GetValue(v)),
            ("Scalar.CreateCopy(unit)", lambda: Scalar(x, u, c).CreateCopy(unit=v)),
            ("Scalar.CreateCopy(value,unit)", lambda: Scalar(x, u, c).CreateCopy(2.0, v)),
            ("Scalar.GetFormatted(unit)", lambda: Scalar(x, u, c).GetFormatted(v)),
            ("Array.GetValues(list)", lambda: Array([x, 1.0], u, c).GetValues(v)),
            ("Array.GetValues(tuple)", lambda: Array((x, 1.0), u, c).GetValues(v)),
            ("Array.GetValues(ndarray)", lambda: Array(numpy.array([x, 1.0]), u, c).GetValues(v)),
            ("Array.CreateCopy(unit)", lambda: Array([x, 1.0], u, c).CreateCopy(unit=v)),
            ("FixedArray.GetValues", lambda: FixedArray(2, [x, 1.0], u, c).GetValues(v)),
            ("FixedArray.IndexAsScalar", lambda: FixedArray(2, [x, 1.0], u, c).IndexAsScalar(0, qv)),
            ("FixedArray.ChangingIndex(Scalar)", lambda: FixedArray(2, [x, 1.0], u, c).ChangingIndex(0, Scalar(1.0, v), use_value_unit=False)),
            ("FixedArray.ChangingIndex(tuple)", lambda: FixedArray(2, [x, 1.0], u, c).ChangingIndex(1, (1.0, v))),
            ("FractionScalar.GetValue", lambda: FractionScalar(FractionValue(x, Fraction(1, 2)), u, c).GetValue(v)),
            ("Quantity.Convert", lambda: ObtainQuantity(u, c).Convert(x, v)),
            ("Quantity.ConvertScalarValue", lambda: ObtainQuantity(u, c).ConvertScalarValue(x, v)),
        ]

    def construct_routes(self, c, u, x):
        import numpy

        from barril.units import Array, FixedArray, FractionScalar, ObtainQuantity, Quantity, Scalar

        return [
            ("ObtainQuantity(unit,category)", lambda: ObtainQuantity(u, c)),
            ("Quantity(category,unit)", lambda: Quantity(c, u)),
            ("Scalar(v,u,c)", lambda: Scalar(x, u, c)),
            ("Scalar(c,v,u)", lambda: Scalar(c, x, u)),
            ("Scalar(c,unit=u)", lambda: Scalar(c, unit=u)),
            ("Array(values,u,c)", lambda: Array([x], u, c)),
            ("Array(c,values,u)", lambda: Array(c, numpy.array([x]), u)),
            ("FixedArray(n,values,u,c)", lambda: FixedArray(2, [x, x], u, c)),
            ("FractionScalar(v,u,c)", lambda: FractionScalar(x, u, c)),
            ("FractionScalar(c,v,u)", lambda: FractionScalar(c, x, u)),
            ("db.CheckCategoryUnit", lambda: self.db.CheckCategoryUnit(c, u)),
            # the validating constructor of derived quantities: one factor under any exponent, and next to a valid factor
            ("Quantity.CreateDerived({c:[u,1]})", lambda: Quantity.CreateDerived(OrderedDict([(c, [u, 1])]))),
            ("Quantity.CreateDerived({c:[u,2]})", lambda: Quantity.CreateDerived(OrderedDict([(c, [u, 2])]))),
            ("Quantity.CreateDerived({c:[u,-1]})", lambda: Quantity.CreateDerived(OrderedDict([(c, [u, -1])]))),
            ("Quantity.CreateDerived({valid, c:[u,1]})", lambda: Quantity.CreateDerived(OrderedDict([self._valid_factor(c), (c, [u, 1])]))),
            ("Quantity.CreateDerived({c:[u,-2], valid})", lambda: Quantity.CreateDerived(OrderedDict([(c, [u, -2]), self._valid_factor(c)]))),
        ]

    def _valid_factor(self, c):
        other = "time" if c != "time" else "length"
        return (other, [self.db.GetDefaultUnit(other), 1])

    def convert_row(self, qt, u, targets, x, object_every):
        """source unit u against target units of other quantity types"""
        ctx, db = self.ctx, self.db
        Convert = db.Convert
        c = self.cats[qt][len(u) % len(self.cats[qt])] if qt in self.cats else None
        light = snapshot.registry_light(db)
        others_qt = [t for t in ("length", "time", "mass", "pressure") if t != qt and t in db.quantity_types]
        same = [i.unit for i in db.quantity_types[qt] if i.unit != u][:2]
        for w in same:
            # a pair that is valid for its own quantity type, converted there first, is still rejected under another type
            Convert(qt, u, w, x)
            for qt2 in others_qt[:2]:
                must_raise_rec(ctx, "db.Convert(other quantity type, valid pair)", {"kind": "convert_wrong_type", "qt": qt, "qt2": qt2, "u": u, "v": w, "x": x, "c": c}, lambda: Convert(qt2, u, w, x), "Convert(%r,%r,%r,%r) after Convert(%r,...)" % (qt2, u, w, x, qt))
                must_raise_rec(ctx, "db.Convert(other quantity type, valid pair, list)", {"kind": "convert_wrong_type", "qt": qt, "qt2": qt2, "u": u, "v": w, "x": x, "c": c}, lambda: Convert(qt2, u, w, [x, 1.0]), "Convert(%r,%r,%r,[...])" % (qt2, u, w))
        # the reciprocal (or another power) of an amount is not an amount of the same dimension: 1/u does not convert to w,
        # u2 does not convert to 1/w2, whatever unit w of the same quantity type is named
        from barril.units import Scalar

        for w in same[:1]:
            rc = {"kind": "reciprocal", "qt": qt, "u": u, "v": w, "x": x, "c": c}
            must_raise_rec(ctx, "db.Convert(exponent form, opposite signs)", rc, lambda: Convert(qt, [(u, -1)], [(w, 1)], x or 1.0), "Convert(%r,[(%r,-1)],[(%r,1)],%r)" % (qt, u, w, x))
            must_raise_rec(ctx, "db.Convert(exponent form, squared to inverse squared)", rc, lambda: Convert(qt, [(u, 2)], [(w, -2)], x or 1.0), "Convert(%r,[(%r,2)],[(%r,-2)],%r)" % (qt, u, w, x))
            if c is not None and x:
                must_raise_rec(ctx, "(1/Scalar).GetValue(unit of the type)", rc, lambda: (1.0 / Scalar(x, u, c)).GetValue(w), "(1/Scalar(%r,%r)).GetValue(%r)" % (x, u, w))
                must_raise_rec(ctx, "(1/Scalar).GetValue([(unit, 1)])", rc, lambda: (1.0 / Scalar(x, u, c)).GetValue([(w, 1)]), "(1/Scalar(%r,%r)).GetValue([(%r,1)])" % (x, u, w))
                must_raise_rec(ctx, "(Scalar*Scalar).GetValue([(unit, -2)])", rc, lambda: (Scalar(x, u, c) * Scalar(x, u, c)).GetValue([(w, -2)]), "(Scalar(%r,%r)**2).GetValue([(%r,-2)])" % (x, u, w))
        for j, v in enumerate(targets):
            case = {"kind": "convert", "qt": qt, "u": u, "v": v, "x": x, "c": c}
            if "Unknown" in db.quantity_types:
                # the exempt quantity type accepts the pair (and converts nothing); that must not make the pair acceptable elsewhere
                Convert("Unknown", u, v, x)
            must_raise_rec(ctx, "db.Convert", case, lambda: Convert(qt, u, v, x), "Convert(%r,%r,%r,%r)" % (qt, u, v, x))
            if c is not None and object_every and j % object_every == 0:
                routes = self.object_routes(qt, u, v, c, x)
                k = (j // object_every) % len(routes)
                for name, fn in (routes if object_every == 1 else [routes[k], routes[(k + 7) % len(routes)]]):
                    must_raise_rec(ctx, name, dict(case, route=name), fn, "%s from %r to %r" % (name, u, v))
                    ctx.cls("route_" + name)
            if _near(u, v):
                ctx.nt_disjoint += 1
                if len(ctx.samples) < 6 and j % 5 == 0:
                    ctx.sample(case)
        ctx.cls("cross_type_unit_pairs", len(targets))
        if snapshot.registry_light(db) != light:
            ctx.record("registry_changed_by_rejected_conversion", {"kind": "convert", "qt": qt, "u": u, "v": targets[0], "x": x, "c": c}, "structural registry fingerprint differs after rejected conversions from %r" % u)

    def category_row(self, c, units, x, object_every):
        ctx, db = self.ctx, self.db
        from barril.units import ObtainQuantity

        light = snapshot.registry_light(db)
        for j, u in enumerate(units):
            case = {"kind": "construct", "c": c, "u": u, "x": x}
            must_raise_rec(ctx, "ObtainQuantity(unit,category)", case, lambda: ObtainQuantity(u, c), "ObtainQuantity(%r,%r)" % (u, c))
            if object_every and j % object_every == 0:
                routes = self.construct_routes(c, u, x)
                k = (j // object_every) % len(routes)
                for name, fn in (routes if object_every == 1 else [routes[k], routes[(k + 5) % len(routes)], routes[(k + 11) % len(routes)]]):
                    must_raise_rec(ctx, name, dict(case, route=name), fn, "%s with unit %r and category %r" % (name, u, c))
                    ctx.cls("route_" + name)
            if _near(u, db.GetDefaultUnit(c) or ""):
                ctx.nt_disjoint += 1
        ctx.cls("category_unit_mismatch_pairs", len(units))
        if snapshot.registry_light(db) != light:
            ctx.record("registry_changed_by_rejected_construction", {"kind": "construct", "c": c, "u": units[0], "x": x}, "structural registry fingerprint differs after rejected constructions with category %r" % c)


def _near(u, v):
    """near miss: the symbols share a leading letter sequence (m vs m2, m/s vs m/s2, ...)"""
    a = u.rstrip("0123456789")
    b = v.rstrip("0123456789")
    return bool(a) and bool(b) and (a.startswith(b) or b.startswith(a) or a.split("/")[0] == b.split("/")[0])


def run_sweep(spec, ctx):
    db = env.new_db("posc")
    thorough = spec["tier"] == "thorough"
    with env.pushed(db):
        sw = Sweep(ctx, db)
        before_reg = snapshot.registry(db)
        before_bat = battery(db)
        units = sw.units
        all_units = [u for _, u in units]
        weights = [1] * len(units)
        mine = partition(units, weights, spec["n"])[spec["i"]]
        seed = spec["seed"]
        xs = [1.0, 0.0, -2.5, 1e6]
        N = len(all_units)
        for idx, (qt, u) in enumerate(mine):
            if ctx.out_of_time():
                break
            others = [v for v in all_units if sw.qt_of[v] != qt]
            if thorough:
                targets = others + [l for l, _ in sw.legacy if sw.qt_of[l] != qt]
                every = 9
            else:
                step = 97 + (seed % 13)
                start = (idx * 31 + seed * 7) % len(others)
                targets = [others[(start + k * step) % len(others)] for k in range(14)]
                # near misses first: symbols that start like u
                targets += [v for v in others if _near(u, v)][:6]
                leg = [l for l, _ in sw.legacy if sw.qt_of[l] != qt]
                targets += [leg[(idx * 5 + k * 11 + seed) % len(leg)] for k in range(4)]
                every = 1
            sw.convert_row(qt, u, targets, xs[idx % len(xs)], every)
        ctx.exhaustive["cross-type ordered unit pairs (db.Convert)"] = "all 2 359 264" if thorough else "rotation-selected subset"
        cats = sorted(c for c in db.IterCategories() if db.GetCategoryQuantityType(c) != "Unknown")
        my_cats = cats[spec["i"] :: spec["n"]]
        for idx, c in enumerate(my_cats):
            if ctx.out_of_time():
                break
            qt = db.GetCategoryQuantityType(c)
            others = [v for v in all_units if sw.qt_of[v] != qt]
            if thorough:
                us, every = others + [l for l, _ in sw.legacy if sw.qt_of[l] != qt], 11
            else:
                step = 89 + (seed % 11)
                start = (idx * 17 + seed * 5) % len(others)
                us = [others[(start + k * step) % len(others)] for k in range(30)]
                us += [v for v in others if _near(v, db.GetDefaultUnit(c) or "")][:6]
                leg = [l for l, _ in sw.legacy if sw.qt_of[l] != qt]
                us += [leg[(idx * 7 + k * 13 + seed) % len(leg)] for k in range(6)]
                every = 1
            sw.category_row(c, us, xs[idx % len(xs)], every)
        ctx.exhaustive["(category, unit) pairs of different quantity types (ObtainQuantity)"] = "all 501 422" if thorough else "rotation-selected subset"
        # nothing changed, nothing poisoned, valid operations behave as before
        after_reg = snapshot.registry(db)
        ctx.ev()
        if after_reg != before_reg:
            ctx.record("registry_changed_after_rejections", {"kind": "sweep"}, "registry snapshot differs after the rejected calls: %s" % snapshot.diff(before_reg, after_reg))
        bad = snapshot.caches_sound(db)
        ctx.ev()
        if bad:
            ctx.record("cache_poisoned_by_rejection", {"kind": "sweep"}, "; ".join(bad[:3]))
        after_bat = battery(db)
        ctx.ev()
        if after_bat != before_bat:
            d = [(p, q) for p, q in zip(before_bat, after_bat) if p != q][:2]
            ctx.record("valid_operations_changed_after_rejections", {"kind": "sweep"}, "battery of valid operations gives different results afterwards: %r" % (d,))


# =============================================================================================
# (a) incompatible arithmetic / ordering on generated pairs


class Pairs:
    def __init__(self, ctx, db):
        self.ctx = ctx
        self.db = db
        self.um = UnitModel(db)
        self.pool = dims.DimPool(db, self.um)

    def check(self, case):
        """case: da, db (cat -> [unit, exp]) with different totals, va, vb, kind"""
        import numpy

        from barril.basic.fraction import FractionValue
        from barril.units import Array, FixedArray, FractionScalar, Scalar

        ctx, db = self.ctx, self.db
        da, dbb = case["da"], case["db"]
        ta, tb = dims.totals(db, da), dims.totals(db, dbb)
        if ta == tb:
            ctx.cls("pair_skipped_same_dimension")
            return
        qa = dims.build_direct(da, 1.0).GetQuantity()
        qb = dims.build_direct(dbb, 1.0).GetQuantity()
        x, y = case["va"], case["vb"]
        objs = []

        def mk(cls, q, v, cont="list"):
            if cls == "Scalar":
                o = Scalar.CreateWithQuantity(q, v)
            elif cls == "Array":
                o = Array.CreateWithQuantity(q, gen.as_container(cont, [v, v + 1.0]))
            elif cls == "FixedArray":
                o = FixedArray.CreateWithQuantity(q, gen.as_container(cont, [v, v + 1.0]), dimension=2)
            else:
                o = FractionScalar.CreateWithQuantity(q, FractionValue(number=v))
            objs.append((o, snapshot.value_object(o)))
            return o

        share = bool(set(ta) & set(tb))
        conts = ["list", "tuple", "ndarray"]
        for cls in ("Scalar", "Array", "FixedArray"):
            for ci, cont in enumerate(conts if cls != "Scalar" else ["-"]):
                a = mk(cls, qa, x, cont)
                b = mk(cls, qb, y, conts[(ci + case.get("rot", 0)) % 3] if cls != "Scalar" else "-")
                for sym, fn in (("+", lambda: a + b), ("-", lambda: a - b), ("+r", lambda: b + a), ("-r", lambda: b - a)):
                    must_raise(ctx, "%s:%s" % (cls, sym[0]), dict(case, cls=cls, op=sym), fn, "%r %s %r" % (a, sym, b))
        must_raise(ctx, "db.Sum", case, lambda: db.Sum(qa, qb, x, y), "db.Sum(%r,%r)" % (qa, qb))
        must_raise(ctx, "db.Subtract", case, lambda: db.Subtract(qa, qb, x, y), "db.Subtract(%r,%r)" % (qa, qb))
        a, b = mk("Scalar", qa, x), mk("Scalar", qb, y)
        for sym, fn in (("<", lambda: a < b), ("<=", lambda: a <= b), (">", lambda: a > b), (">=", lambda: a >= b), ("<r", lambda: b < a), (">=r", lambda: b >= a)):
            must_raise(ctx, "Scalar:order", dict(case, op=sym), fn, "%r %s %r" % (a, sym, b))
        if not qa.IsDerived() and not qb.IsDerived():
            fa, fb = mk("FractionScalar", qa, x), mk("FractionScalar", qb, y)
            for sym, fn in (("<", lambda: fa < fb), ("<=", lambda: fa <= fb), (">", lambda: fa > fb), (">=", lambda: fb >= fa)):
                must_raise(ctx, "FractionScalar:order", dict(case, op=sym), fn, "%r %s %r" % (fa, sym, fb))
        for o, s0 in objs:
            ctx.ev()
            if snapshot.value_object(o) != s0:
                ctx.fail("operand_changed_by_rejected_operation:%s" % type(o).__name__, case, "operand %r changed by a rejected operation: %r -> %r" % (o, s0, snapshot.value_object(o)))
        ctx.cls("pairs_sharing_a_type" if share else "pairs_disjoint_types")
        ctx.cls("pair_kind_%s" % case.get("kind", "?"))
        if share or _near(qa.GetUnit(), qb.GetUnit()):
            ctx.nontrivial(("pair", tuple(sorted(ta.items())), tuple(sorted(tb.items()))), case if len(ctx.samples) < 10 else None)


LOOKALIKE = [(("length", 2), "area"), (("length", 3), "volume"), (("time", -1), "frequency"), (("length", 1), "area"), (("time", 1), "frequency")]


def pair_strategy(pool, db):
    cats = pool.cats

    @st.composite
    def case(draw):
        kind = draw(st.sampled_from(["exponent", "extra", "reciprocal", "lookalike", "other_type", "two_shapes"]))
        shape = draw(pool.shape_strategy(max_factors=3, max_exp=3))
        if kind == "exponent":
            i = draw(st.integers(0, len(shape) - 1))
            qt, e = shape[i]
            e2 = e + draw(st.sampled_from([1, -1, 2]))
            shape2 = [f for j, f in enumerate(shape) if j != i] + ([(qt, e2)] if e2 else [])
            if not shape2:
                shape2 = [(qt, e * 2)]
        elif kind == "extra":
            shape2 = shape + [(draw(pool.qt_strategy()), draw(st.sampled_from([1, -1])))]
        elif kind == "reciprocal":
            shape2 = [(qt, -e) for qt, e in shape]
        elif kind == "lookalike":
            (qt, e), simple = draw(st.sampled_from(LOOKALIKE))
            shape = [(qt, e)]
            shape2 = [(simple, 1)]
        elif kind == "other_type":
            shape = [(draw(pool.qt_strategy()), 1)]
            shape2 = [(draw(pool.qt_strategy()), 1)]
        else:
            shape2 = draw(pool.shape_strategy(max_factors=3, max_exp=3))
        for s in (shape, shape2):
            for qt, _ in s:
                if qt not in pool.units:
                    return None
        da, _ = draw(pool.instance_strategy(shape))
        dbb, _ = draw(pool.instance_strategy(shape2))
        if not da or not dbb:
            return None
        return {
            "kind": kind,
            "da": {c: list(v) for c, v in da.items()},
            "db": {c: list(v) for c, v in dbb.items()},
            "va": draw(gen.moderate_values()),
            "vb": draw(gen.moderate_values()),
            "rot": draw(st.integers(0, 2)),
        }

    return case().filter(lambda c: c is not None)


def _fix(case):
    from collections import OrderedDict

    case = dict(case)
    for k in ("da", "db"):
        if k in case:
            case[k] = OrderedDict((c, list(v)) for c, v in case[k].items())
    return case


# =============================================================================================
# (d) sequences: rejected calls interleaved with valid ones


REJECTS = ["add", "sub", "lt", "convert", "getvalue", "copyunit", "array_getvalues", "construct", "obtain", "fraction_getvalue", "array_add", "changing_index", "add_foreign", "sub_foreign_arrays"]
_FOREIGN = {}


def _foreign_operands():
    """operands that belong to another database than the current one (created while a project database was current)"""
    if not _FOREIGN:
        from barril.units import Array, Scalar

        sk = _FOREIGN["db"] = env.skewed_db()
        with env.pushed(sk):
            _FOREIGN["scalars"] = (Scalar(1.0, "m", "length"), Scalar(2.0, "s", "time"))
            _FOREIGN["arrays"] = (Array([1.0, 2.0], "cm", "length"), Array([1.0, 2.0], "min", "time"))
    return _FOREIGN
PAIRS = [("m", "length", "s", "time"), ("m2", "area", "m", "length"), ("kg", "mass", "kgf", "force"), ("degC", "temperature", "Pa", "pressure"), ("m3", "volume", "m2", "area"), ("m/s", "velocity", "m/s2", "acceleration linear"), ("ft", "depth", "psi", "pressure"), ("Hz", "frequency", "s", "time")]
VALID = ["convert", "add", "mul", "div", "obtain", "array", "lt", "copy", "validunits", "scalar_default"]


class Machine:
    def __init__(self, ctx, db, case):
        self.ctx = ctx
        self.db = db
        self.case = case
        self.pool = []

    def add(self, o):
        if len(self.pool) < 12:
            self.pool.append(o)

    def valid(self, kind, i):
        import numpy

        from barril.units import Array, ObtainQuantity, Scalar

        db = self.db
        u, c, v, c2 = PAIRS[i % len(PAIRS)]
        if kind == "convert":
            qt = db.GetCategoryQuantityType(c)
            us = db.GetUnits(qt)
            db.Convert(qt, u, us[i % len(us)], 2.5)
        elif kind == "add":
            qt = db.GetCategoryQuantityType(c)
            us = db.GetUnits(qt)
            self.add(Scalar(1.0, u, c) + Scalar(2.0, us[i % len(us)]))
        elif kind == "mul":
            self.add(Scalar(2.0, u, c) * Scalar(3.0, v, c2))
        elif kind == "div":
            self.add(Scalar(2.0, u, c) / Scalar(4.0, v, c2))
        elif kind == "obtain":
            ObtainQuantity(u, c)
            ObtainQuantity(v)
        elif kind == "array":
            self.add(Array([1.0, 2.0, float(i)], u, c))
            self.add(Array(numpy.array([1.0, 2.0]), v, c2))
        elif kind == "lt":
            Scalar(1.0, u, c) < Scalar(2.0, u)
        elif kind == "copy":
            qt = db.GetCategoryQuantityType(c)
            us = db.GetUnits(qt)
            self.add(Scalar(3.0, u, c).CreateCopy(unit=us[(i * 3) % len(us)]))
        elif kind == "validunits":
            Scalar(1.0, u, c).GetValidUnits()
            db.GetValidUnits(c2)
        elif kind == "scalar_default":
            self.add(Scalar(c))

    def reject(self, kind, i):
        import numpy

        from barril.basic.fraction import Fraction, FractionValue
        from barril.units import Array, FixedArray, FractionScalar, ObtainQuantity, Scalar

        db, ctx = self.db, self.ctx
        u, c, v, c2 = PAIRS[i % len(PAIRS)]
        a = self.pool[i % len(self.pool)] if self.pool and isinstance(self.pool[i % len(self.pool)], Scalar) else Scalar(1.5, u, c)
        if a.GetQuantityType() == db.GetCategoryQuantityType(c2):
            return
        b = Scalar(2.0, v, c2)
        fns = {
            "add": lambda: a + b,
            "sub": lambda: b - a,
            "lt": lambda: a < b,
            "convert": lambda: db.Convert(db.GetCategoryQuantityType(c), u, v, 1.0),
            "getvalue": lambda: Scalar(1.0, u, c).GetValue(v),
            "copyunit": lambda: Scalar(1.0, u, c).CreateCopy(unit=v),
            "array_getvalues": lambda: Array(numpy.array([1.0, 2.0]), u, c).GetValues(v),
            "construct": lambda: Scalar(1.0, v, c),
            "obtain": lambda: ObtainQuantity(v, c),
            "fraction_getvalue": lambda: FractionScalar(FractionValue(1.0, Fraction(1, 2)), u, c).GetValue(v),
            "array_add": lambda: Array([1.0, 2.0], u, c) + Array((1.0, 2.0), v, c2),
            "changing_index": lambda: FixedArray(2, [1.0, 2.0], u, c).ChangingIndex(0, (1.0, v)),
            "add_foreign": lambda: _foreign_operands()["scalars"][0] + _foreign_operands()["scalars"][1],
            "sub_foreign_arrays": lambda: _foreign_operands()["arrays"][0] - _foreign_operands()["arrays"][1],
        }
        case = dict(self.case, at=[kind, i])
        must_raise(ctx, "sequence:%s" % kind, case, fns[kind], "rejected call %s (%s/%s vs %s/%s)" % (kind, u, c, v, c2))

    def run(self, ops):
        ctx, db = self.ctx, self.db
        n_rej = 0
        for kind, name, i in ops:
            if kind == "valid":
                self.valid(name, i)
                continue
            snaps = [snapshot.value_object(o) for o in self.pool]
            reg0 = snapshot.registry(db)  # immediately before the rejected call (valid steps are C15's business)
            bat0 = battery(db)
            self.reject(name, i)
            n_rej += 1
            ctx.ev(3)
            from barril.units import UnitDatabase

            if UnitDatabase.GetSingleton() is not db:
                ctx.fail("current_database_changed_by_rejected_call:%s" % name, self.case, "after the rejected call %s another database is the current one" % name)
            for o, s in zip(self.pool, snaps):
                if snapshot.value_object(o) != s:
                    ctx.fail("pool_object_changed_by_rejected_call:%s" % name, self.case, "pool object %r changed by the rejected call %s" % (o, name))
            reg = snapshot.registry(db)
            if reg != reg0:
                ctx.fail("registry_changed_by_rejected_call:%s" % name, self.case, "registry changed by the rejected call %s: %s" % (name, snapshot.diff(reg0, reg)))
            bad = snapshot.caches_sound(db)
            if bad:
                ctx.fail("cache_poisoned_by_rejected_call:%s" % name, self.case, "; ".join(bad[:2]))
            bat = battery(db)
            if bat != bat0:
                d = [(p, q) for p, q in zip(bat0, bat) if p != q][:2]
                ctx.fail("valid_operations_changed_by_rejected_call:%s" % name, self.case, "battery differs after %s: %r" % (name, d))
        ctx.cls("sequences")
        ctx.cls("rejected_calls_in_sequences", n_rej)
        if n_rej >= 2 and any(k == "valid" for k, _, _ in ops):
            ctx.nontrivial(("seq", tuple(ops)), {"ops": ops} if len(ctx.samples) < 3 else None)


_DB = {}


def run_sequence(ctx, ops):
    # registrations never happen here, so one database per process is reused; caches are cleared so
    # that every sequence starts cold and is a pure function of its operations
    db = _DB.get("db")
    if db is None or snapshot.registry_light(db) != _DB["fp"] or not env.clear_caches(db):
        db = _DB["db"] = env.new_db("posc")
        _DB["fp"] = snapshot.registry_light(db)
    with env.pushed(db):
        Machine(ctx, db, {"ops": ops}).run(ops)


def run_renamed_categories(spec, ctx):
    """Categories registered at run time whose *name* is the name of another quantity type: a category named X but
    bound to quantity type Y takes the units of Y and rejects those of X, through every construction route."""
    from barril.units import Scalar

    db = env.new_db("posc")
    with env.pushed(db):
        sw = Sweep(ctx, db)
        qts = [qt for qt in sorted(db.quantity_types) if qt != "Unknown" and qt in sw.cats and len(db.quantity_types[qt]) >= 2]
        k = spec["seed"] % 7
        pairs = [(qts[(i * 11 + k) % len(qts)], qts[(i * 11 + k + 5) % len(qts)]) for i in range(14 if spec["tier"] == "quick" else 80)]
        pairs += [("standard volume", "volume"), ("length", "time"), ("area", "length")]
        for X, Y in pairs:
            if X == Y or X not in db.quantity_types or Y not in db.quantity_types:
                continue
            ux = [i.unit for i in db.quantity_types[X]][:6]
            uy = [i.unit for i in db.quantity_types[Y]][:3]
            # the units of X are used once *without* a category before X is re-bound (their default category is X): what
            # such a lookup left behind must not answer for the old definition afterwards
            from barril.units import Array, ObtainQuantity

            primed = []
            for u in ux:
                try:
                    if db.GetDefaultCategory(u) == X:
                        Scalar(1.0, u), ObtainQuantity(u)
                        primed.append(u)
                except Exception:
                    pass
            db.AddCategory(X, Y, override=True)
            for u in primed:
                case = {"kind": "renamed", "X": X, "Y": Y, "u": u}
                for route, fn in (("Scalar(v,u) without category", lambda: Scalar(1.0, u)), ("Scalar((v,u))", lambda: Scalar((1.0, u))), ("Array(values,u) without category", lambda: Array([1.0], u)), ("ObtainQuantity(u)", lambda: ObtainQuantity(u))):
                    must_raise_rec(ctx, "category_less_form_after_its_default_category_was_rebound:" + route, case, fn, "%s with u=%r after AddCategory(%r, %r, override=True)" % (route, u, X, Y))
            for u in uy:
                ctx.ev()
                try:
                    Scalar(1.0, u, X)
                except Exception as e:
                    ctx.record("category_rejects_unit_of_its_own_type", {"kind": "renamed", "X": X, "Y": Y, "u": u}, "category %r is bound to quantity type %r but Scalar(1, %r, %r) raised %s" % (X, Y, u, X, type(e).__name__))
            sw.category_row(X, ux, 1.5, 1)
            ctx.cls("renamed_category_pairs")
            ctx.nt_disjoint += 1
        bad = snapshot.caches_sound(db)
        if bad:
            ctx.record("cache_poisoned_by_rejection", {"kind": "renamed"}, "; ".join(bad[:3]))


def run_shard(spec, ctx):
    seed = spec["seed"] * 1000 + spec["shard"]
    if spec["part"] == "sweep":
        run_sweep(spec, ctx)
        if spec["i"] == 0:
            run_renamed_categories(spec, ctx)
        return
    if spec["part"] == "pairs":
        db = env.new_db("posc")
        with env.pushed(db):
            pr = Pairs(ctx, db)
            strat = pair_strategy(pr.pool, db)

            def mk():
                @given(strat)
                def test(case):
                    core.guarded(ctx, pr.check, _fix(case))

                return test

            core.hunt(ctx, mk, seed, spec["examples"])
        return
    op = st.one_of(
        st.tuples(st.just("valid"), st.sampled_from(VALID), st.integers(0, 40)),
        st.tuples(st.just("reject"), st.sampled_from(REJECTS), st.integers(0, 40)),
    )

    def mk():
        @given(st.lists(op, min_size=2, max_size=30))
        def test(ops):
            ops = [tuple(o) for o in ops]
            core.guarded(ctx, lambda c: run_sequence(ctx, c["ops"]), {"ops": ops})

        return test

    core.hunt(ctx, mk, seed, spec["examples"])


def replay(case, ctx):
    if "ops" in case:
        return core.replay_guarded(ctx, lambda c: run_sequence(ctx, [tuple(o) for o in c["ops"]]), case)
    db = env.new_db("posc")
    with env.pushed(db):
        if "da" in case:
            pr = Pairs(ctx, db)
            return core.replay_guarded(ctx, pr.check, _fix(case))
        sw = Sweep(ctx, db)
        if case.get("kind") in ("convert", "convert_wrong_type", "reciprocal"):
            sw.convert_row(case["qt"], case["u"], [case["v"]] if case["kind"] == "convert" else [], case["x"], 1)
        elif case.get("kind") == "renamed":
            run_renamed_categories({"seed": 1, "tier": "quick"}, ctx)
        elif case.get("kind") == "construct":
            sw.category_row(case["c"], [case["u"]], case["x"], 1)
        else:
            spec = {"tier": "quick", "n": 6, "i": 0, "seed": 1}
            run_sweep(spec, ctx)
        return ["%s: %s" % (k, v["msg"]) for k, v in ctx.violations.items()]
