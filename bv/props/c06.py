"""C06 — named compound units agree with the composition of their parts."""
import math

from hypothesis import given, strategies as st

from bv import core, env, gen, grammar
from bv.model import UnitModel, mag_of

PID = "C06"
RULE = (
    "Exhaustive over the rows of the shipped table. (a) every symbol the unit grammar (numerator.factors / "
    "denominator.factors, numeric prefixes, integer exponent suffixes) decomposes into registered symbols in a "
    "non-trivial way: slope(row) against prod((prefix*slope(component))**exp) for every possible reading (ambiguous "
    "tokens such as 'ft3' = ft**3 or the unit ft3), the row passes if one reading agrees within tol = "
    "max(5e-7, 2*u_row), u_row = written precision of the row's own non-integer coefficients; (b) atomic symbols "
    "that are an SI prefix + registered symbol and whose registered name starts with the prefix name: slope(row) "
    "against 10**k*slope(base). (c) the Scalar form: Scalar(x,row) and the product/quotient of component Scalars "
    "have the same base magnitude (left to right, N/D, N*(1/D), (1/D)*N, powers written with **), x Hypothesis-generated; before the sweep a project database that gives shipped symbols other sizes matches them under exponents (nothing it learns may reach another database) and some rows are offered for registration once more with other factors (refused); a composition with an offset unit under an exponent other than 1, divided by its twin written with the base unit (either order), is the pure ratio of the unit sizes. The negated amount converted through the exponent list has the opposite sign. Every decomposable row is non-trivial (it relates >= 2 "
    "table rows); distinct key = row symbol."
)
ASSUMPTIONS = [
    "tolerance = the precision the table is written in (POSC publishes 7 significant digits)",
    "errors below a row's written precision, errors in atomic non-prefixed rows and rows outside the grammar are invisible to a cross-row oracle",
]
BUDGET_S = {"quick": 60, "thorough": 600}
FLOOR = 5e-7
EXHAUSTIVE = True


def plan(tier, seed):
    return [{"tier": tier, "seed": seed}]


def u_lit(x):
    """Relative half-unit-in-the-last-written-digit of a coefficient, from its shortest decimal repr.
    Coefficients written with <= 3 significant digits (1000.0, 0.001, 86400, 9, 5) count as exact; an
    integer-valued literal is read up to its last non-zero digit (232080 -> 23208|0)."""
    x = abs(float(x))
    if x == 0:
        return 0.0
    r = repr(x)
    mant, _, e = r.partition("e")
    e = int(e) if e else 0
    ip, _, fp = mant.partition(".")
    if fp == "0":
        fp = ""
    digits = ip + fp
    last_exp = e - len(fp)
    stripped = digits.rstrip("0")
    if fp == "":
        last_exp += len(digits) - len(stripped)
        digits = stripped
    if len(digits.lstrip("0")) <= 3:
        return 0.0
    return 0.5 * 10.0 ** last_exp / x


def u_row(info):
    tb = info.tobase
    return u_lit(getattr(tb, "__b__", 1.0)) + u_lit(getattr(tb, "__c__", 1.0))


class Checker:
    def __init__(self, ctx, db):
        self.ctx = ctx
        self.db = db
        self.um = UnitModel(db)
        self.U = db.unit_to_unit_info

    def row_key(self, kind, sym, ratio):
        return "%s:%s:ratio=%.8g" % (kind, sym, ratio)

    def check_grammar_row(self, sym):
        """returns the agreeing (or best) reading, or None if the row is outside the grammar"""
        ctx, um, U = self.ctx, self.um, self.U
        rds = grammar.readings(sym, U, U[sym].name)
        if not rds:
            return None
        info = U[sym]
        mine = um.slope[sym]
        tol = max(FLOOR, 2 * u_row(info))
        best = None
        for comp in rds:
            ctx.ev()
            f = 1.0
            try:
                for coef, u, e in comp:
                    f *= (coef * um.slope[u]) ** e
            except (OverflowError, ZeroDivisionError):
                continue
            rel = abs(mine / f - 1) if f else float("inf")
            if best is None or rel < best[0]:
                best = (rel, comp, f)
        if best is None:
            return None
        rel, comp, f = best
        ctx.cls("grammar_rows")
        ctx.cls("components_%d" % len(comp))
        if any(c != 1.0 for c, _, _ in comp):
            ctx.cls("has_numeric_prefix")
        if any(abs(e) > 1 for _, _, e in comp):
            ctx.cls("has_exponent")
        if any(um.offset[u] != 0 for _, u, _ in comp):
            ctx.cls("has_affine_component")
        if len(rds) > 1:
            ctx.cls("ambiguous_symbol")
        ctx.cls("agree_exactly" if rel == 0 else ("agree_1e-12" if rel < 1e-12 else ("agree_within_tol" if rel <= tol else "disagree")))
        case = {"sym": sym, "kind": "grammar", "qt": info.quantity_type, "reading": [list(c) for c in comp], "row_factor": mine, "composition": f, "tol": tol}
        ctx.nontrivial(("grammar", sym), case if len(ctx.samples) < 8 and len(comp) >= 2 else None)
        if not (rel <= tol):
            ctx.record(
                self.row_key("row", sym, mine / f),
                case,
                "row %r (%s) has factor %.10g to the base but its parts %r compose to %.10g: row/composition = %.6g (tolerance %.2g)" % (sym, info.quantity_type, mine, comp, f, mine / f, tol),
            )
            return None
        return comp

    def check_prefix_row(self, sym):
        ctx, um, U = self.ctx, self.um, self.U
        info = U[sym]
        pr = grammar.prefix_reading(sym, info.name, U)
        if pr is None:
            return False
        pf, base = pr
        ctx.ev()
        want = pf * um.slope[base]
        mine = um.slope[sym]
        tol = max(FLOOR, 2 * u_row(info))
        rel = abs(mine / want - 1)
        ctx.cls("prefix_rows")
        case = {"sym": sym, "kind": "prefix", "qt": info.quantity_type, "name": info.name, "base": base, "prefix_factor": pf, "row_factor": mine, "expected": want}
        ctx.nontrivial(("prefix", sym), case if len(ctx.samples) < 11 else None)
        if U[base].quantity_type != info.quantity_type:
            ctx.cls("prefix_rows_other_type")
        if not (rel <= tol):
            ctx.record(
                self.row_key("prefix", sym, mine / want),
                case,
                "row %r is named %r but its factor %.10g is not %g x the factor of %r (%.10g): ratio %.6g" % (sym, info.name, mine, pf, base, um.slope[base], mine / want),
            )
        return True

    def check_scalar_form(self, sym, comp, x):
        """Scalar(x,row) and the product/quotient of component Scalars describe the same amount."""
        from barril.units import Scalar

        ctx, um = self.ctx, self.um
        info = self.U[sym]
        a = Scalar(x, sym)
        acc = None
        k = 1.0
        for coef, u, e in comp:
            k *= coef ** e
            f = Scalar(1.0, u)
            for _ in range(abs(e)):
                if e > 0:
                    acc = f if acc is None else acc * f
                else:
                    acc = (1.0 / f) if acc is None else acc / f
        forms = [("left to right", acc * (x * k))]
        # the same composition associated differently: numerator product N and denominator product D first
        N = D = None
        for coef, u, e in comp:
            f = Scalar(1.0, u)
            for _ in range(abs(e)):
                if e > 0:
                    N = f if N is None else N * f
                else:
                    D = f if D is None else D * f
        if N is not None and D is not None:
            forms += [("N/D", (N / D) * (x * k)), ("N*(1/D)", (N * (1.0 / D)) * (x * k)), ("(1/D)*N", ((1.0 / D) * N) * (x * k))]
        # powers written with the ** operator instead of repeated products (ft6 = ft**6)
        if any(abs(e) >= 2 for _c, _u, e in comp):
            P = None
            for coef, u, e in comp:
                f = Scalar(1.0, u) ** abs(e)
                if e > 0:
                    P = f if P is None else P * f
                else:
                    P = (1.0 / f) if P is None else P / f
            forms.append(("powers by **", P * (x * k)))
        # a component with an offset (degC, degF, a gauge pressure) counts by its size only inside a compound unit: the
        # composition divided by its twin written with the base unit of that quantity type (K, Pa) is the pure ratio of
        # sizes raised to the exponent - in both orders of division
        # (with exponent 1 an offset unit is converted with its offset, as in a sum: those rows are left out)
        if any(um.offset[u] != 0 for _c, u, _e in comp) and all(e != 1 for _c, u, e in comp if um.offset[u] != 0):
            twin = None
            want_ratio = 1.0
            for coef, u, e in comp:
                bu = um.base[um.qt[u]] if um.offset[u] != 0 else u
                if bu != u:
                    want_ratio *= (um.slope[u] / um.slope[bu]) ** e
                f = Scalar(1.0, bu)
                for _ in range(abs(e)):
                    if e > 0:
                        twin = f if twin is None else twin * f
                    else:
                        twin = (1.0 / f) if twin is None else twin / f
            for what, r, want in (("composition / twin", acc / twin, want_ratio), ("twin / composition", twin / acc, 1.0 / want_ratio)):
                ctx.ev()
                if r.GetUnit() != "" or abs(r.GetValue() / want - 1) > 1e-9:
                    ctx.record("composition_with_offset_unit_against_base_unit_twin:%s" % sym, {"sym": sym, "kind": "scalar_form", "reading": [list(c) for c in comp], "x": x}, "%s for %r: %r, expected the dimensionless ratio %r" % (what, sym, r, want))
            ctx.cls("offset_component_twin_checked")
        ma = mag_of(um, a.GetQuantity(), a.GetValue())
        tol = max(FLOOR, 2 * u_row(info)) + 1e-9
        # a composition that is one unit raised to an exponent (1/ft, ft2, 1/bbl ...) can be re-expressed through the
        # public exponent-list conversion into the base unit of that quantity type: that number is the row's amount too
        if len(comp) == 1 and comp[0][2] != 1 and um.offset[comp[0][1]] == 0:
            coef, cu, ce = comp[0]
            base_u = um.base[um.qt[cu]]
            b0 = forms[0][1]
            ctx.ev()
            try:
                in_base = b0.GetValue([(base_u, ce)])
            except Exception as e:
                if core.tree_frame(e) is None:
                    raise
                in_base = None
                ctx.cls("exponent_list_conversion_raises_%s" % type(e).__name__)
            if in_base is not None and math.isfinite(ma) and ma != 0:
                mb0 = in_base * (um.slope[base_u] ** ce)
                # (the amount with the opposite sign converts to the opposite number, whatever the exponent)
                try:
                    neg = (b0 * -1.0).GetValue([(base_u, ce)])
                except Exception as e:
                    if core.tree_frame(e) is None:
                        raise
                    neg = None
                if neg is not None and in_base != 0 and abs(neg / in_base + 1) > 1e-9:
                    ctx.record("exponent_list_conversion_loses_the_sign:%s" % sym, {"sym": sym, "kind": "scalar_form", "reading": [list(c) for c in comp], "x": x}, "%r converts with GetValue([(%r,%d)]) to %r, the same amount with the opposite sign to %r" % (b0, base_u, ce, in_base, neg))
                if abs(mb0 / ma - 1) > tol:
                    ctx.record("scalar_form_exponent_list_conversion:%s" % sym, {"sym": sym, "kind": "scalar_form", "reading": [list(c) for c in comp], "x": x}, "Scalar(%r,%r) is %.10g in base units; its composition %r converted with GetValue([(%r,%d)]) gives %.10g" % (x, sym, ma, b0, base_u, ce, mb0))
                ctx.cls("scalar_form_exponent_list_conversion")
        for fname, b in forms:
            ctx.ev()
            mb = mag_of(um, b.GetQuantity(), b.GetValue())
            if not (math.isfinite(ma) and math.isfinite(mb)) or ma == 0:
                ctx.cls("scalar_form_skipped_extreme")
                return
            ctx.cls("scalar_form_checked")
            if abs(mb / ma - 1) > tol:
                ctx.record(
                    "scalar_form:%s:ratio=%.8g" % (sym, ma / mb) if fname == "left to right" else "scalar_form_association:%s:%s" % (fname, sym),
                    {"sym": sym, "kind": "scalar_form", "reading": [list(c) for c in comp], "x": x},
                    "Scalar(%r,%r) is %.10g in base units, the composition (%s) %r is %.10g" % (x, sym, ma, fname, b, mb),
                )


def _decoy_arithmetic():
    """A project database that gives shipped symbols other sizes (ft = 2 m, cm = 50 m ...) matches them under exponents
    before the shipped database does: nothing it learns may be used by another database."""
    from barril.units import Scalar

    sk = env.skewed_db()
    with env.pushed(sk):
        for u, v in (("ft", "m"), ("cm", "m"), ("km", "m"), ("m", "ft"), ("min", "s"), ("h", "s"), ("s", "h")):
            a, b = Scalar(2.0, u), Scalar(1.0, v)
            (a * a * a) / (b * b * b)
            (a * a) * (b * b)
            1.0 / (a * a) + 1.0 / (b * b)


def run_shard(spec, ctx):
    _decoy_arithmetic()
    ctx.cls("decoy_database_matched_units_first")
    db = env.new_db("posc")
    with env.pushed(db):
        # some rows are offered for registration once more with other factors (refused: nothing changes)
        again = [u for u in sorted(db.unit_to_unit_info) if "/" in u or u[-1:].isdigit()][spec.get("shard", 0) :: 7][:40] + ["ft/s", "kPa", "Mm", "lbm/ft3"]
        for sym in env.refused_reregistrations(db, again):
            ctx.record("duplicate_unit_registration_accepted:%s" % sym, {"kind": "reregistration", "sym": sym}, "AddUnit for the existing symbol %r was accepted" % sym)
        ctx.cls("refused_reregistrations_first", len(again))
        ch = Checker(ctx, db)
        ok_rows = []
        n_out = 0
        for sym in sorted(db.unit_to_unit_info):
            comp = ch.check_grammar_row(sym)
            if comp is not None:
                ok_rows.append((sym, comp))
            elif not grammar.readings(sym, db.unit_to_unit_info, db.unit_to_unit_info[sym].name):
                if not ch.check_prefix_row(sym):
                    n_out += 1
        ctx.classes["rows_outside_grammar_and_prefix_rule"] = n_out
        ctx.exhaustive["table rows"] = "all %d" % len(db.unit_to_unit_info)
        # (c) Scalar form on consistent rows: all rows, generated values
        n_ex = 3 if spec["tier"] == "quick" else 40

        def guarded_form(sym, comp, x):
            try:
                ch.check_scalar_form(sym, comp, x)
            except Exception as e:
                where = core.tree_frame(e)
                if where is None:
                    raise
                ctx.record("scalar_form_raises:%s" % type(e).__name__, {"sym": sym, "kind": "scalar_form", "reading": [list(c) for c in comp], "x": x}, "building %r from its parts raised %s: %s" % (sym, type(e).__name__, str(e)[:200]))

        @given(gen.moderate_values(1e-3, 1e6))
        def form(x):
            for sym, comp in ok_rows:
                guarded_form(sym, comp, x)

        core.hunt(ctx, lambda: form, spec["seed"], n_ex, shrink=False)


def replay(case, ctx):
    _decoy_arithmetic()
    db = env.new_db("posc")
    with env.pushed(db):
        if case.get("kind") == "reregistration":
            acc = env.refused_reregistrations(db, [case["sym"]])
            return ["AddUnit for the existing symbol %r was accepted" % s for s in acc]
        env.refused_reregistrations(db, [case.get("sym", "ft/s"), "ft/s", "kPa"])
        ch = Checker(ctx, db)
        if case["kind"] == "grammar":
            ch.check_grammar_row(case["sym"])
        elif case["kind"] == "prefix":
            ch.check_prefix_row(case["sym"])
        else:
            ch.check_scalar_form(case["sym"], [tuple(c) for c in case["reading"]], case["x"])
    # a replay passes only if nothing fails and no listed known finding was needed to excuse it
    msgs = ["%s: %s" % (k, v["msg"]) for k, v in ctx.violations.items()]
    msgs += ["known finding still present: %s" % k for k in ctx.known_hits]
    return msgs
