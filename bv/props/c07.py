"""C07 — quantities are immutable values with sound equality, hash and copying."""
import copy
import pickle
from collections import OrderedDict

from hypothesis import given, strategies as st

from bv import core, env

PID = "C07"
RULE = (
    "Hypothesis generates operation sequences (lists of <= 40/60 steps, shrunk as one value) run by an interpreter "
    "on a fresh POSC database: ObtainQuantity in every form (unit; unit+category; category only; legacy spelling; "
    "list-of-tuples + categories; dict/OrderedDict with list and tuple values; unknown caption; GetUnknownQuantity; "
    "Quantity.CreateDerived / CreateEmpty / Quantity(category, unit)), Scalar/Array/Quantity arithmetic on pool "
    "members, conversions, CheckValue, name getters, failing operations, copy/deepcopy/Copy/MakeCopy/"
    "CreateCopyInstance, pickle round trips, mutator attempts. Invariant after every step, on every quantity in "
    "the database cache and the pool: (category, type, unit, composing units/categories, joined exponents, deep "
    "copy of the composing map, caption, IsDerived, repr, hash) equals the tuple recorded at first sight. Per step: "
    "same request twice -> identical object; same resolution -> == and equal hash; different resolution -> !=; "
    "copy/deepcopy -> identical; pickle -> equal; mutators raise ReadOnlyError/AttributeError. A Scalar / Array / FixedArray built on a pool quantity (constructor and CreateWithQuantity), its CreateCopy, copy and pickle hold a quantity equal to it with the same hash, caption and snapshot. The list form with tuple entries also takes a caption. A refused AddCategory(override=True) between requests changes nothing: the same requests keep returning the very same objects. Histories also build x/y, (1/y)*x, x*(1/y), x*y, y*x from two categories and register every result. Non-trivial = sequence "
    "with a derived/empty/captioned quantity or a failed operation after >= 1 arithmetic step; key = the sequence."
)
ASSUMPTIONS = ["callers mutating the map returned by GetCategoryToUnitAndExps() themselves are outside 'public operations'"]
BUDGET_S = {"quick": 120, "thorough": 1200}
N = {"quick": 600, "thorough": 5000}
STEPS = {"quick": 40, "thorough": 60}
SHARDS = {"quick": 8, "thorough": 16}

UNITS = [
    # the first entries collide on purpose (same unit under several categories, several units per category)
    ("m", "length"), ("m", "depth"), ("cm", "length"), ("cm", "depth"), ("m", "diameter"), ("s", "time"), ("min", "time"),
    ("km", "depth"), ("ft", "diameter"),
    ("kg", "mass"), ("g", "mass"), ("K", "temperature"), ("degC", "temperature"), ("m2", "area"), ("m3", "volume"),
    ("bbl", "liquid volume"), ("Pa", "pressure"), ("psi", "pressure"), ("m3/d", "volume flow rate"), ("Mcf/d", "volume flow rate"),
    ("lbmol", "amount of substance"), ("<unknown>", "Unknown"),
]
LEGACY = [("1000ft3/d", "Mcf/d", "volume flow rate"), ("lbmole", "lbmol", "amount of substance"), ("M(m3)/d", "MMm3/d", "volume flow rate"), ("Ns/m", "N.s/m", None)]
CAPTIONS = ["", "cap A", "cap B"]


def plan(tier, seed):
    return [{"tier": tier, "seed": seed, "n": N[tier], "steps": STEPS[tier]} for _ in range(SHARDS[tier])]


def snap(q):
    return (
        q.GetCategory(),
        q.GetQuantityType(),
        q.GetUnit(),
        q.unit,
        q.GetComposingUnits(),
        q.GetComposingCategories(),
        q.GetComposingUnitsJoiningExponents(),
        tuple((c, tuple(ue)) for c, ue in q.GetCategoryToUnitAndExps().items()),
        tuple((c, tuple(ue)) for c, ue in q.GetCategoryToUnitAndExpsCopy().items()),
        q.GetUnknownCaption(),
        q.GetUnitCaption(),
        q.IsDerived(),
        repr(q),
        hash(q),
    )


def res_key(q):
    """what a quantity resolved to: the composing map and the caption"""
    return (tuple((c, tuple(ue)) for c, ue in q.GetCategoryToUnitAndExps().items()), q.GetUnknownCaption() or "")


class Machine:
    def __init__(self, ctx, db, case):
        self.ctx = ctx
        self.db = db
        self.case = case
        self.pool = []
        self.seen = {}  # id -> (quantity, snapshot)
        self.requests = {}  # request -> object returned the first time
        self.witness = {}  # resolution key -> quantity
        self.n_arith = 0
        self.flags = set()

    # -- bookkeeping --------------------------------------------------------------------------
    def fail(self, key, msg):
        self.ctx.fail(key, self.case, msg)

    def add(self, q, expect_key=None):
        """a quantity came out of a public operation"""
        from barril.units import Quantity

        if not isinstance(q, Quantity):
            self.fail("operation_did_not_return_a_quantity", "got %r" % (q,))
        k = res_key(q)
        if expect_key is not None and k != expect_key:
            self.fail("request_resolved_differently", "request should resolve to %r, got quantity %r with %r" % (expect_key, q, k))
        w = self.witness.get(k)
        self.ctx.ev()
        if w is None:
            # different resolution -> unequal to every known class
            for k2, w2 in list(self.witness.items())[-25:]:
                if q == w2 or w2 == q or not (q != w2):
                    self.fail("different_resolutions_compare_equal", "%r (%r) == %r (%r)" % (q, k, w2, k2))
            self.witness[k] = q
        else:
            if not (q == w and w == q) or q != w or hash(q) != hash(w):
                self.fail("same_resolution_not_equal_or_hash_differs", "%r vs %r: eq=%r hash %r/%r" % (q, w, q == w, hash(q), hash(w)))
        if q.IsDerived():
            self.flags.add("derived")
        if q.GetUnknownCaption():
            self.flags.add("captioned")
        if not q.GetCategoryToUnitAndExps():
            self.flags.add("empty")
        if all(q is not p for p in self.pool):
            self.pool.append(q)
        return q

    def same_as_before(self, request, q):
        """the identical object for the same request, however many other requests came in between
        (nothing is registered during a sequence)"""
        self.ctx.ev()
        old = self.requests.setdefault(request, q)
        if old is not q:
            self.fail("same_request_not_identical_object_later", "request %r returned %r at first and now another object (equal: %r)" % (request, old, old == q))

    def pick(self, i):
        return self.pool[i % len(self.pool)] if self.pool else None

    def invariant(self):
        quantities = list(getattr(self.db, "quantities_cache", {}).values()) + self.pool
        for q in quantities:
            s = snap(q)
            self.ctx.ev()
            old = self.seen.get(id(q))
            if old is None:
                self.seen[id(q)] = (q, s)
            elif old[1] != s:
                diff = [i for i, (a, b) in enumerate(zip(old[1], s)) if a != b]
                self.fail("quantity_changed_after_creation", "quantity observed as %r is now %r (fields %r differ)" % (old[1], s, diff))
        # every cache key still maps to a quantity consistent with the key
        for key, q in getattr(self.db, "quantities_cache", {}).items():
            if len(key) == 3 and isinstance(key[1], str) and not isinstance(key[0], tuple):
                cat, unit, cap = key
                if q.IsDerived():
                    self.fail("cache_key_maps_to_other_quantity", "cache key %r -> %r" % (key, q))
                if cat is not None and q.GetCategory() != cat:
                    self.fail("cache_key_maps_to_other_quantity", "cache key %r -> %r" % (key, q))
                if (q.GetUnknownCaption() or None) != (cap or None):
                    self.fail("cache_key_maps_to_other_quantity", "cache key %r -> %r" % (key, q))

    # -- operations ---------------------------------------------------------------------------
    def expected_simple(self, unit, cat, cap):
        from barril.units.unit_database import FixUnitIfIsLegacy

        db = self.db
        if unit is None:
            unit = db.GetDefaultUnit(cat)
        if unit not in db.unit_to_unit_info:
            _, unit = FixUnitIfIsLegacy(unit)
        if cat is None:
            cat = db.GetDefaultCategory(unit)
        return (((cat, (unit, 1)),), cap or "")

    def apply(self, op):
        from barril.units import Array, GetUnknownQuantity, ObtainQuantity, Quantity, ReadOnlyError, Scalar
        from barril.units.unit_database import UnitsError

        kind = op[0]
        self.ctx.cls("op_" + kind)
        if kind == "obtain_unit":
            u, c = UNITS[op[1] % len(UNITS)]
            q1 = ObtainQuantity(u)
            q2 = ObtainQuantity(u)
            if q1 is not q2:
                self.fail("same_request_not_identical_object", "ObtainQuantity(%r) twice" % u)
            self.same_as_before(("unit", u), q1)
            self.add(q1, self.expected_simple(u, None, None))
        elif kind == "obtain_unit_cat":
            u, c = UNITS[op[1] % len(UNITS)]
            cap = CAPTIONS[op[2] % len(CAPTIONS)] or None
            q1 = ObtainQuantity(u, c, cap)
            if ObtainQuantity(u, c, cap) is not q1:
                self.fail("same_request_not_identical_object", "ObtainQuantity(%r,%r,%r) twice" % (u, c, cap))
            self.same_as_before(("unit_cat", u, c, cap), q1)
            self.add(q1, self.expected_simple(u, c, cap))
        elif kind == "obtain_cat":
            u, c = UNITS[op[1] % len(UNITS)]
            q1 = ObtainQuantity(None, c)
            if ObtainQuantity(None, c) is not q1:
                self.fail("same_request_not_identical_object", "ObtainQuantity(None,%r) twice" % c)
            self.same_as_before(("cat", c), q1)
            self.add(q1, self.expected_simple(None, c, None))
        elif kind == "obtain_legacy":
            leg, cur, c = LEGACY[op[1] % len(LEGACY)]
            q1 = ObtainQuantity(leg, c) if (op[2] % 2 and c) else ObtainQuantity(leg)
            self.add(q1, self.expected_simple(cur, c if (op[2] % 2 and c) else None, None))
            self.flags.add("legacy")
        elif kind == "constructor":
            u, c = UNITS[op[1] % len(UNITS)]
            q1 = Quantity(c, u)
            self.add(q1, self.expected_simple(u, c, None))
        elif kind == "unknown":
            cap = CAPTIONS[op[1] % len(CAPTIONS)] or None
            q1 = GetUnknownQuantity(cap)
            if GetUnknownQuantity(cap) is not q1:
                self.fail("same_request_not_identical_object", "GetUnknownQuantity(%r) twice" % cap)
            self.same_as_before(("unknown", cap), q1)
            self.add(q1, self.expected_simple("<unknown>", "Unknown", cap))
        elif kind == "empty":
            q1 = Quantity.CreateEmpty()
            if Quantity.CreateEmpty() is not q1:
                self.fail("same_request_not_identical_object", "CreateEmpty twice")
            self.add(q1, ((), ""))
        elif kind == "derived":
            # op[1]: list of (unit index, exponent); op[2]: form; op[3]: caption index
            items = OrderedDict()
            for ui, e in op[1]:
                u, c = UNITS[ui % (len(UNITS) - 1)]
                if c in items or e == 0:
                    continue
                items[c] = (u, e)
            if not items:
                return
            cap = CAPTIONS[op[3] % len(CAPTIONS)] or None
            form = op[2] % 6
            single = len(items) == 1 and list(items.values())[0][1] == 1
            if single:
                (c, (u, e)), = items.items()
                want = (((c, (u, 1)),), (cap or "") if form in (1, 2, 3, 5) else "")
            else:
                want = (tuple((c, (u, e)) for c, (u, e) in items.items()), (cap or "") if form in (1, 2, 3, 5) else "")

            def build(form):
                if form == 0:
                    return ObtainQuantity([(u, e) for c, (u, e) in items.items()], list(items.keys()))
                if form == 1:
                    return ObtainQuantity(OrderedDict((c, [u, e]) for c, (u, e) in items.items()), None, cap)
                if form == 2:
                    # CreateDerived accepts any mapping (it rebuilds the ordered map itself)
                    return Quantity.CreateDerived(dict((c, [u, e]) for c, (u, e) in items.items()), cap)
                if form == 3:
                    return Quantity.CreateDerived(OrderedDict((c, [u, e]) for c, (u, e) in items.items()), cap)
                if form == 5:
                    # the list form with tuple entries (what GetComposingUnits() returns) and a caption
                    return ObtainQuantity([(u, e) for c, (u, e) in items.items()], list(items.keys()), cap)
                return ObtainQuantity(tuple((u, e) for c, (u, e) in items.items()), tuple(items.keys()))

            q1 = build(form)
            q2 = build(form)
            if q1 is not q2:
                self.fail("same_request_not_identical_object", "derived request %r form %d twice" % (dict(items), form))
            self.add(q1, want)
        elif kind == "arith":
            a, b = self.pick(op[1]), self.pick(op[2])
            if a is None:
                return
            o = op[3] % 9
            try:
                if o == 7:
                    # bare Quantity operators with plain numbers and the unary/modulo forms
                    rs = [a * 2, 2 * a, a + 1, 1 + a, a - 1, 1 - a, abs(a), a / 2, a % b, a - b if a == b else a]
                    r = rs[op[2] % len(rs)]
                elif o == 8:
                    r = (a + b) if a == b else (b - b)
                elif o == 0:
                    r = (Scalar.CreateWithQuantity(a, 2.0) * Scalar.CreateWithQuantity(b, 3.0)).GetQuantity()
                elif o == 1:
                    r = (Scalar.CreateWithQuantity(a, 2.0) / Scalar.CreateWithQuantity(b, 3.0)).GetQuantity()
                elif o == 2:
                    r = a * b
                elif o == 3:
                    r = a / b
                elif o == 4:
                    r = (Array.CreateWithQuantity(a, [1.0, 2.0]) * Array.CreateWithQuantity(b, (3.0, 4.0))).GetQuantity()
                elif o == 5:
                    r = (Scalar.CreateWithQuantity(a, 2.0) + Scalar.CreateWithQuantity(b, 3.0)).GetQuantity()
                else:
                    r = (Scalar.CreateWithQuantity(a, 2.0) ** ((op[1] % 3) + 1)).GetQuantity()
            except (UnitsError, TypeError, ValueError, ZeroDivisionError) as e:
                if o in (0, 1, 2, 3, 4, 6) and not isinstance(e, ZeroDivisionError) and core.tree_frame(e) is not None:
                    # any two quantities can be multiplied and divided (only + and - have a compatibility condition)
                    self.fail("multiplication_of_quantities_raises:%s" % type(e).__name__, "operation %d on %r and %r raised %s: %s" % (o, a, b, type(e).__name__, str(e)[:150]))
                self.flags.add("failed_op")
                self.ctx.cls("arith_rejected")
                return
            self.n_arith += 1
            if len(r.GetCategoryToUnitAndExps()) <= 5:
                self.add(r)
        elif kind == "convert":
            a = self.pick(op[1])
            if a is None:
                return
            u, c = UNITS[op[2] % len(UNITS)]
            try:
                Scalar.CreateWithQuantity(a, 2.0).GetValue(u)
                a.ConvertScalarValue(1.0, u)
            except (UnitsError, TypeError, ValueError):
                self.flags.add("failed_op")
        elif kind == "reads":
            a = self.pick(op[1])
            if a is None:
                return
            a.CheckValue(1.0)
            a.GetUnitName()
            a.GetUnitCaption()
            str(a)
            a.GetCategoryInfo()
            try:
                a.GetValidUnits()
            except UnitsError:
                pass
            m = a.GetCategoryToUnitAndExpsCopy()
            for k in list(m):
                m[k] = ["mutated-copy", 99]  # the copy is the caller's: must not reach the quantity
            m["new"] = ["x", 1]
        elif kind == "fail":
            u, _ = UNITS[op[1] % len(UNITS)]
            _, c = UNITS[op[2] % len(UNITS)]
            try:
                ObtainQuantity(u, c)
            except (UnitsError, TypeError, ValueError):
                self.flags.add("failed_op")
            try:
                ObtainQuantity("no-such-unit-%d" % (op[1] % 3))
            except (UnitsError, TypeError, ValueError, KeyError):
                self.flags.add("failed_op")
        elif kind == "copy":
            a = self.pick(op[1])
            if a is None:
                return
            for name, c in (("copy", copy.copy(a)), ("deepcopy", copy.deepcopy(a)), ("Copy", a.Copy()), ("MakeCopy", a.MakeCopy()), ("CreateCopyInstance", a.CreateCopyInstance()), ("deepcopy in container", copy.deepcopy([a])[0])):
                self.ctx.ev()
                if c is not a:
                    self.fail("copy_not_identical_object", "%s of %r returned another object %r" % (name, a, c))
            m = a.GetCategoryToUnitAndExpsCopy()
            if m:
                c2 = a.MakeCopy(m)
                self.add(c2, res_key(a))
        elif kind == "pickle":
            a = self.pick(op[1])
            if a is None:
                return
            b = pickle.loads(pickle.dumps(a, protocol=op[2] % (pickle.HIGHEST_PROTOCOL + 1)))
            self.ctx.ev()
            if not (b == a and a == b) or hash(a) != hash(b):
                self.fail("pickle_round_trip_not_equal", "%r -> %r" % (a, b))
            self.add(b, res_key(a))
        elif kind == "same_strings_other_map":
            # two quantities that read the same ('length / time', 'm/s') and are composed differently (the factors in
            # another order): different resolutions, whatever the strings say
            (u1, c1), (u2, c2) = UNITS[op[1] % len(UNITS)], UNITS[op[2] % len(UNITS)]
            if c1 == c2:
                return
            try:
                x, y = Scalar(3.0, u1, c1), Scalar(2.0, u2, c2)
                for q_ in ((x / y).GetQuantity(), ((1.0 / y) * x).GetQuantity(), (x * (1.0 / y)).GetQuantity(), (x * y).GetQuantity(), (y * x).GetQuantity()):
                    self.add(q_)
            except (UnitsError, TypeError, ValueError):
                self.flags.add("failed_op")
        elif kind == "rejected_override":
            # an AddCategory(override=True) that is refused (a default unit of another quantity type) changes nothing: the
            # same requests keep returning the very same objects (same_as_before watches the whole history)
            u, c = UNITS[op[1] % len(UNITS)]
            try:
                self.db.AddCategory(c, self.db.GetCategoryQuantityType(c), override=True, default_unit="kg" if self.db.GetCategoryQuantityType(c) != "mass" else "s")
            except Exception as e:
                if core.tree_frame(e) is None:
                    raise
                self.flags.add("failed_op")
                self.ctx.cls("override_rejected")
            else:
                raise core.HarnessError("the override was expected to be rejected")
        elif kind == "wrap":
            # value objects built on a quantity carry that quantity - category, unit, caption, equality class and hash -
            # through construction, copies and (Scalar, FixedArray) pickling
            from barril.units import Array, FixedArray, Scalar

            a = self.pick(op[1])
            if a is None:
                return
            forms = [
                ("Scalar(q, v)", lambda: Scalar(a, 1.5), True),
                ("Scalar.CreateWithQuantity", lambda: Scalar.CreateWithQuantity(a, 1.5), True),
                ("Array(q, values)", lambda: Array(a, [1.0, 2.0]), False),
                ("Array.CreateWithQuantity", lambda: Array.CreateWithQuantity(a, [1.0, 2.0]), False),
                ("FixedArray(n, q, values)", lambda: FixedArray(2, a, [1.0, 2.0]), True),
            ]
            name, fn, pickles = forms[op[2] % len(forms)]
            try:
                o = fn()
            except (UnitsError, TypeError, ValueError, AssertionError):
                self.flags.add("failed_op")
                return
            held = [(name, o.GetQuantity()), (name + ".CreateCopy()", o.CreateCopy().GetQuantity()), (name + " copy", copy.copy(o).GetQuantity())]
            if pickles:
                held.append((name + " pickled", pickle.loads(pickle.dumps(o, protocol=op[3] % (pickle.HIGHEST_PROTOCOL + 1))).GetQuantity()))
            for what, q in held:
                self.ctx.ev()
                if not (q == a and a == q) or hash(q) != hash(a) or q.GetUnknownCaption() != a.GetUnknownCaption() or snap(q) != snap(a):
                    self.fail("value_object_holds_another_quantity", "%s built on %r holds %r (caption %r / %r)" % (what, a, q, a.GetUnknownCaption(), q.GetUnknownCaption()))
            self.flags.add("wrapped")
        elif kind == "mutate":
            a = self.pick(op[1])
            if a is None:
                return
            self.ctx.ev()
            try:
                a.SetUnknownCaption("x")
                self.fail("mutator_did_not_raise", "SetUnknownCaption on %r returned" % (a,))
            except ReadOnlyError:
                pass
            for attr in ("unit", "category", "quantity_type", "some_new_attribute"):
                try:
                    setattr(a, attr, "x")
                except AttributeError:
                    continue
                self.fail("attribute_assignment_accepted", "setattr(%r, %r) was accepted" % (a, attr))
        else:
            raise core.HarnessError("unknown op %r" % (op,))

    def run(self, ops):
        for op in ops:
            self.apply(op)
            self.invariant()
        # equality classes are stable
        for k, w in self.witness.items():
            if res_key(w) != k:
                self.fail("quantity_changed_after_creation", "witness of class %r now resolves to %r" % (k, res_key(w)))
        if self.n_arith >= 1 and (self.flags & {"derived", "empty", "captioned", "failed_op"}):
            self.ctx.nontrivial(repr(ops), {"ops": ops, "flags": sorted(self.flags)})


def op_strategy():
    i = st.one_of(st.integers(0, 6), st.integers(0, 6), st.integers(0, 40))
    return st.one_of(
        st.tuples(st.just("obtain_unit"), i),
        st.tuples(st.just("obtain_unit_cat"), i, i),
        st.tuples(st.just("obtain_cat"), i),
        st.tuples(st.just("obtain_legacy"), i, i),
        st.tuples(st.just("constructor"), i),
        st.tuples(st.just("unknown"), i),
        st.tuples(st.just("empty")),
        st.tuples(st.just("derived"), st.lists(st.tuples(i, st.integers(-3, 3)), min_size=1, max_size=4), i, i),
        st.tuples(st.just("arith"), i, i, i),
        st.tuples(st.just("arith"), i, i, i),
        st.tuples(st.just("arith"), i, i, i),
        st.tuples(st.just("convert"), i, i),
        st.tuples(st.just("reads"), i),
        st.tuples(st.just("fail"), i, i),
        st.tuples(st.just("copy"), i),
        st.tuples(st.just("pickle"), i, i),
        st.tuples(st.just("mutate"), i),
        st.tuples(st.just("wrap"), i, i, i),
        st.tuples(st.just("rejected_override"), i),
        st.tuples(st.just("same_strings_other_map"), i, i),
        st.tuples(st.just("same_strings_other_map"), i, i),
    )


def _tupled(ops):
    out = []
    for op in ops:
        op = list(op)
        if op[0] == "derived":
            op[1] = [tuple(x) for x in op[1]]
        out.append(tuple(op))
    return out


_DB = {}


def _fingerprint(db):
    return (len(db.unit_to_unit_info), len(db.categories_to_quantity_types), sum(len(v) for v in db.quantity_types.values()))


def run_case(ctx, ops):
    # The operations of this property register nothing, so one POSC database per process is reused
    # with its caches emptied (a fresh 24 ms build per example makes shrinking very slow); if the
    # registry fingerprint ever changes the database is rebuilt.
    db = _DB.get("db")
    if db is None or _fingerprint(db) != _DB["fp"] or not env.clear_caches(db):
        db = _DB["db"] = env.new_db("posc")
        _DB["fp"] = _fingerprint(db)
    with env.pushed(db):
        m = Machine(ctx, db, {"ops": ops})
        m.run(ops)


def run_shard(spec, ctx):
    # lists of lists: long sequences on average (about 25 steps), still shrinkable down to one step
    ops = st.lists(st.lists(op_strategy(), min_size=1, max_size=10), min_size=1, max_size=max(2, spec["steps"] // 5)).map(lambda ll: [o for l in ll for o in l])

    def mk():
        @given(ops)
        def test(seq):
            core.guarded(ctx, lambda c: run_case(ctx, c["ops"]), {"ops": _tupled(seq)})

        return test

    core.hunt(ctx, mk, spec["seed"] * 1000 + spec["shard"], spec["n"])


def replay(case, ctx):
    return core.replay_guarded(ctx, lambda c: run_case(ctx, c["ops"]), {"ops": _tupled(case["ops"])})
