"""C08 — comparisons are coherent: order follows the physical amount, equality is total."""
import math

from hypothesis import given, strategies as st

from bv import core, dims, env, gen
from bv.model import UnitModel
from bv.util import partition

PID = "C08"
RULE = (
    "(a) ordering: unit pairs (u,v) of one quantity type (all 37 040 ordered pairs in thorough; one Hypothesis-"
    "drawn rotation of the unit list per quantity type and draw in quick, i.e. >= 1548 pairs per draw) x categories of the "
    "type x generated finite x, with b constructed 'exactly equal' (y=Convert(u->v,x), kept only when both cross "
    "conversions are float-exact), 'clearly above' and 'clearly below' (1e-6 relative in base units); Scalar and "
    "FractionScalar (number only, number+fraction for scale-only pairs, and inside one unit the same amount split differently between number and fraction part); all of < <= > >= in both operand "
    "orders must equal the comparison of the two base amounts (UnitModel), never a>b and b>a, always a<=b or b<=a. "
    "Generated cross-type pairs (simple and derived) must raise TypeError for the four order operators. "
    "(b) equality: Hypothesis-generated pools of 4..9 objects out of Quantity (simple/derived/empty/unknown, built by the constructor, a known unit given a caption, a derived one and its twin with the factors in the other order), "
    "Scalar, Array and FixedArray (list/tuple/ndarray of dtype float64, float32, int32, object; lengths 0..4), FractionScalar, FractionValue, Fraction, "
    "Curve, UnitSystem and unrelated objects (None, str, int, float, tuple, list, dict, object()), drawn from small "
    "alphabets so that equal twins occur; for every ordered pair ==/!= never raise, a==a, (a==b)==(b==a), "
    "(a!=b)==not(a==b), a==b => hash(a)==hash(b) when both hash. Every product / quotient / square of two table units whose unit string spells a table unit of another quantity type is ordered against that unit: TypeError. Non-trivial = (a) u!=v; (b) pair of different "
    "classes, or an equal pair of distinct objects; distinct key = (a) (class, qt, u, v, relation), (b) (class a, class b, equal?)."
)
ASSUMPTIONS = [
    "order is asserted only for amounts separated by > 1e-9 relative, or exactly equal under both float cross-conversions",
    "numpy arrays and numpy scalars are not used as the 'unrelated object' (numpy defines elementwise ==)",
    "NaN values are not generated (reflexivity is stated for finite values)",
    "FractionScalars with a fraction part are compared only when the converted numerator is >= 1e-3 (Fraction rounds numerators to 1e-8 absolute by design; see C18)",
]
BUDGET_S = {"quick": 150, "thorough": 1500}
OPS = ("lt", "le", "gt", "ge")


def _op(name, a, b):
    if name == "lt":
        return a < b
    if name == "le":
        return a <= b
    if name == "gt":
        return a > b
    return a >= b


# expected truth of  a OP b  /  b OP a  when the amounts relate as  a REL b
EXPECT = {
    "equal": {"lt": (False, False), "le": (True, True), "gt": (False, False), "ge": (True, True)},
    "below": {"lt": (True, False), "le": (True, False), "gt": (False, True), "ge": (False, True)},
    "above": {"lt": (False, True), "le": (False, True), "gt": (True, False), "ge": (True, False)},
}


def plan(tier, seed):
    specs = []
    n_order = 6 if tier == "quick" else 12
    for i in range(n_order):
        specs.append({"part": "order", "i": i, "n": n_order, "tier": tier, "seed": seed})
    n_pool = 4 if tier == "quick" else 4
    for i in range(n_pool):
        specs.append({"part": "pool", "i": i, "tier": tier, "seed": seed, "examples": 350 if tier == "quick" else 12000})
    return specs


# =============================================================================================
# (a) ordering


_SKEWED = None


class Order:
    def __init__(self, ctx, db):
        self.ctx = ctx
        self.db = db
        self.um = UnitModel(db)
        cats = {}
        for c in db.IterCategories():
            cats.setdefault(db.GetCategoryQuantityType(c), []).append(c)
        self.cats = cats

    def make(self, cls, x, u, c, frac=None):
        from barril.basic.fraction import Fraction, FractionValue
        from barril.units import FractionScalar, Scalar

        if cls == "Scalar":
            return Scalar(x, u, c)
        if frac is None:
            return FractionScalar(FractionValue(number=x), u, c)
        return FractionScalar(FractionValue(x, Fraction(frac[0], frac[1])), u, c)

    def amounts(self, case):
        """(x_total, y_total or None): builds b's value from the relation; None => case not usable."""
        um, db = self.um, self.db
        qt, u, v, x, rel = case["qt"], case["u"], case["v"], case["x"], case["rel"]
        frac = case.get("frac")
        xt = x + (frac[0] / frac[1] if frac else 0.0)
        A = um.offset[u] + um.slope[u] * xt
        scale = abs(um.offset[u]) + abs(um.slope[u] * xt) + abs(um.offset[v])
        if rel == "equal":
            y = db.Convert(qt, u, v, xt)
            if db.Convert(qt, v, u, y) != xt or not math.isfinite(y):
                return xt, None
            if frac and not (u == v and float(case["x"]) == math.floor(case["x"]) and abs(case["x"]) < 1e9 and frac[1] in (1, 2, 4, 8)):
                return xt, None  # with a fraction part exact equality is only constructed inside one unit (dyadic part)
            return xt, y
        m = 1e-6 * scale if scale > 0 else um.slope[v]
        B = A + m if rel == "below" else A - m
        y = (B - um.offset[v]) / um.slope[v]
        By = um.offset[v] + um.slope[v] * y
        if not math.isfinite(y) or abs(By - A) <= 1e-9 * (scale + abs(By)) or (By > A) != (rel == "below"):
            return xt, None
        return xt, y

    def check(self, case):
        """case: cls, qt, u, v, ca, cb, x, rel [, frac]; an exception raised by the library while two amounts of one
        quantity type are built or ordered is a violation (collected), not the end of the sweep"""
        try:
            return self._check(case)
        except core.Viol:
            raise
        except Exception as e:
            where = core.tree_frame(e)
            if where is None:
                raise
            self.ctx.record("order_raises:%s:%s@%s" % (case.get("cls"), type(e).__name__, where), case, "ordering a and b (case %r) raised %s: %s" % (case, type(e).__name__, str(e)[:200]))

    def _check(self, case):
        ctx = self.ctx
        xt, y = self.amounts(case)
        frac = case.get("frac")
        if frac and abs(frac[0] * self.um.slope[case["u"]] / self.um.slope[case["v"]]) < 1e-3:
            # barril's Fraction rounds numerators to 1e-8 absolute by design; converted fraction parts
            # that small are C18's subject, not an ordering question
            self.ctx.cls("order_case_skipped_tiny_converted_numerator")
            return
        if y is None:
            ctx.cls("order_case_skipped_not_exact_or_not_separated")
            return
        cls, rel = case["cls"], case["rel"]
        a = self.make(cls, case["x"], case["u"], case["ca"], case.get("frac"))
        b = self.make(cls, y, case["v"], case["cb"])
        if case.get("derived_elsewhere"):
            # the operands are re-made from themselves (a copy with the same value, a product with 1) while a project
            # database is the current one: they stay objects of their own database and order as before
            global _SKEWED
            if _SKEWED is None:
                _SKEWED = env.skewed_db()
            with env.pushed(_SKEWED):
                if case["derived_elsewhere"] == 1:
                    a, b = a.CreateCopy(value=a.GetValue()), b.CreateCopy(value=b.GetValue())
                else:
                    a, b = a * 1.0, b * 1.0
            ctx.cls("operands_remade_under_another_current_database")
        res = {}
        for op in OPS:
            want_ab, want_ba = EXPECT[rel][op]
            for tag, p, q, want in (("a%sb" % op, a, b, want_ab), ("b%sa" % op, b, a, want_ba)):
                ctx.ev()
                got = _op(op, p, q)
                res[tag] = bool(got)
                if bool(got) != want:
                    side = "a_op_b" if tag.startswith("a") else "b_op_a"
                    ctx.record(
                        "order_disagrees_with_amounts:%s:%s:%s:%s" % (cls, op, rel, side),
                        case,
                        "a=%r, b=%r (a is %s b physically): %s %s %s returned %r" % (a, b, rel, "a" if p is a else "b", op, "b" if q is b else "a", got),
                    )
        if res["agtb"] and res["bgta"]:
            ctx.record("both_greater:%s" % cls, case, "a=%r b=%r: a>b and b>a are both True" % (a, b))
        if not (res["aleb"] or res["blea"]):
            ctx.record("neither_le:%s" % cls, case, "a=%r b=%r: neither a<=b nor b<=a" % (a, b))
        for p, q in ((a, b), (b, a)):
            ctx.ev()
            e, n = (p == q), (p != q)
            if bool(e) == bool(n):
                ctx.record("eq_ne_inconsistent:%s" % cls, case, "%r == %r is %r but != is %r" % (p, q, e, n))
        if cls == "FractionScalar" and frac:
            # the fraction part is edited in place after the comparisons above (the stored FractionValue is the caller's to
            # edit): the order follows the new amount
            um = self.um
            a.GetValue().GetFraction().numerator = frac[0] + 3 * frac[1]
            xt2 = case["x"] + (frac[0] + 3 * frac[1]) / frac[1]
            A2 = um.offset[case["u"]] + um.slope[case["u"]] * xt2
            B2 = um.offset[case["v"]] + um.slope[case["v"]] * y
            if abs(A2 - B2) > 1e-6 * (abs(A2) + abs(B2)):
                rel2 = "below" if A2 < B2 else "above"
                for op in OPS:
                    want_ab, want_ba = EXPECT[rel2][op]
                    ctx.ev()
                    if bool(_op(op, a, b)) != want_ab or bool(_op(op, b, a)) != want_ba:
                        ctx.record("order_stale_after_editing_fraction:%s" % op, case, "after editing a's fraction in place a=%r, b=%r (a is %s b): a %s b = %r, b %s a = %r" % (a, b, rel2, op, _op(op, a, b), op, _op(op, b, a)))
                        break
                ctx.cls("order_after_in_place_edit")
        ctx.cls("order_%s_%s" % (cls, rel))
        if case["u"] != case["v"]:
            aff = self.um.offset[case["u"]] != 0 or self.um.offset[case["v"]] != 0
            if aff:
                ctx.cls("order_affine_pair")
            ctx.nontrivial((cls, case["qt"], case["u"], case["v"], rel), case if (len(ctx.samples) < 4 and (aff or rel == "equal")) else None)

    def sweep(self, rows, xs, rots, fracs):
        """rows: [(qt,u)] ; for each v chosen by `rots` (None = all units)"""
        ctx, db, um = self.ctx, self.db, self.um
        for qt, u in rows:
            if ctx.out_of_time():
                return
            units = [i.unit for i in db.quantity_types[qt]]
            cats = self.cats.get(qt)
            if not cats or qt == "Unknown":
                continue
            n = len(units)
            iu = units.index(u)
            vs = units if rots is None else sorted(set(units[(iu + r) % n] for r in rots))
            for j, v in enumerate(vs):
                ca = cats[(iu + j) % len(cats)]
                cb = cats[(iu * 3 + j * 5 + 1) % len(cats)]
                scale_only = um.offset[u] == 0 and um.offset[v] == 0
                for k, x in enumerate(xs):
                    for rel in ("equal", "below", "above"):
                        base = {"qt": qt, "u": u, "v": v, "ca": ca, "cb": cb, "x": x, "rel": rel}
                        self.check(dict(base, cls="Scalar"))
                        self.check(dict(base, cls="FractionScalar"))
                        if (j + k) % 4 == 0 and rel != "equal":
                            self.check(dict(base, cls="Scalar", derived_elsewhere=1 + (j % 2)))
                        if scale_only and rel != "equal" and fracs:
                            f = fracs[(k + j) % len(fracs)]
                            self.check(dict(base, cls="FractionScalar", frac=list(f), x=float(math.floor(x)) if abs(x) < 1e12 else x))
                        if v == u and rel == "equal":
                            # the same amount split differently between number and fraction part (1 1/2 against 1.5)
                            for f in ((1, 2), (3, 2), (5, 4), (-1, 4)):
                                ctx.cls("equal_amounts_split_differently")
                                self.check(dict(base, cls="FractionScalar", frac=list(f), x=float(math.floor(x)) if abs(x) < 1e9 else 7.0))

    # -- cross type ------------------------------------------------------------------------------
    def cross(self, case):
        """case: cls, a: (x,u,c) or derived tree, b likewise; quantity types differ => TypeError."""
        ctx = self.ctx
        a = self.build_any(case["cls"], case["a"])
        b = self.build_any(case["cls"], case["b"])
        if a.quantity_type == b.quantity_type:
            ctx.cls("cross_skipped_same_type")
            return
        for op in OPS:
            for p, q in ((a, b), (b, a)):
                ctx.ev()
                try:
                    r = _op(op, p, q)
                except TypeError:
                    continue
                except Exception as e:
                    ctx.fail("cross_type_order_wrong_exception:%s:%s" % (case["cls"], type(e).__name__), case, "%r %s %r raised %s: %s (TypeError expected)" % (p, op, q, type(e).__name__, e))
                else:
                    ctx.fail("cross_type_order_returned:%s:%s" % (case["cls"], op), case, "%r %s %r returned %r although the quantity types differ (%r vs %r)" % (p, op, q, r, p.quantity_type, q.quantity_type))
        ctx.cls("cross_type_%s" % case["cls"])
        kinds = tuple(sorted((case["a"][0], case["b"][0])))
        ctx.cls("cross_type_operands_%s_%s" % kinds)
        ctx.nontrivial(("cross", case["cls"], a.quantity_type, b.quantity_type))

    def build_any(self, cls, spec):
        from barril.units import Scalar

        if spec[0] == "simple":
            return self.make(cls, spec[1], spec[2], spec[3])
        # derived: product/quotient of two leaves (Scalar only)
        _, op, (x1, u1, c1), (x2, u2, c2) = spec
        l, r = Scalar(x1, u1, c1), Scalar(x2, u2, c2)
        return l * r if op == "*" else l / r


# =============================================================================================
# (b) equality pools


FOREIGN = ["None", "str_m", "str_empty", "int1", "int0", "float1", "tuple_vu", "tuple_empty", "list12", "dict", "object", "bool", "bytes"]
UNITS = [("m", "length"), ("cm", "length"), ("m", "depth"), ("s", "time"), ("m2", "area"), ("degC", "temperature")]
VALS = [1.0, 2.0, 100.0, 0.0, -1.0]


def build(spec):
    """Build an object from a JSON-able spec (fresh object at every call)."""
    import collections
    import fractions

    import numpy

    from barril.basic.fraction import Fraction, FractionValue
    from barril.curve.curve import Curve
    from barril.units import Array, FixedArray, FractionScalar, ObtainQuantity, Quantity, Scalar
    from barril.units.unit_system import UnitSystem

    k = spec[0]
    if k == "foreign":
        return {
            "None": None,
            "str_m": "m",
            "str_empty": "",
            "int1": 1,
            "int0": 0,
            "float1": 1.0,
            "tuple_vu": (1.0, "m"),
            "tuple_empty": (),
            "list12": [1.0, 2.0],
            "dict": {},
            "object": object(),
            "bool": True,
            "bytes": b"m",
            "stdfraction": fractions.Fraction(1, 2),
        }[spec[1]]
    if k == "quantity":
        form = spec[1]
        if form == "simple":
            return ObtainQuantity(spec[2], spec[3])
        if form == "captioned":
            # a caption may be given for a known unit too (it only shows for unknown ones)
            return ObtainQuantity(spec[2], spec[3], spec[4])
        if form == "ctor":
            return Quantity(spec[3], spec[2])  # a fresh, uncached object equal to the cached one
        if form == "empty":
            return Quantity.CreateEmpty()
        if form == "unknown":
            from barril.units import GetUnknownQuantity

            return GetUnknownQuantity(spec[2] or None)
        if form == "derived_swapped":
            # the same two factors written in the other order: another composing map (and another hash)
            (u1, c1), (u2, c2), e2 = spec[2], spec[3], spec[4]
            if c1 == c2:
                return build(("quantity", "derived", spec[2], spec[3], e2))
            return Quantity.CreateDerived(collections.OrderedDict([(c2, [u2, e2]), (c1, [u1, 1])]))
        if form == "derived":
            (u1, c1), (u2, c2), e2 = spec[2], spec[3], spec[4]
            return Quantity.CreateDerived(collections.OrderedDict([(c1, [u1, 1]), (c2, [u2, e2])])) if c1 != c2 else Quantity.CreateDerived(collections.OrderedDict([(c1, [u1, 1 + e2])])) if 1 + e2 != 0 else Quantity.CreateEmpty()
    if k == "scalar":
        return Scalar.CreateWithQuantity(build(spec[1]), spec[2])
    if k == "array":
        return Array.CreateWithQuantity(build(spec[1]), gen.as_container(spec[2], spec[3]))
    if k == "fixedarray":
        vals = list(spec[3])
        return FixedArray.CreateWithQuantity(build(spec[1]), gen.as_container(spec[2], vals), dimension=len(vals))
    if k == "fvalue":
        return FractionValue(spec[1]) if spec[2] is None else FractionValue(spec[1], Fraction(spec[2][0], spec[2][1]))
    if k == "fscalar":
        return FractionScalar(build(("fvalue", spec[2], spec[3])), spec[1][0], spec[1][1])
    if k == "fraction":
        return Fraction(spec[1], spec[2])
    if k == "curve":
        return Curve(build(spec[1]), build(spec[2]))
    if k == "unitsystem":
        return UnitSystem(spec[1], spec[2], dict(spec[3]), spec[4])
    raise ValueError(spec)


def _swap_derived(spec):
    """the spec with every derived quantity in it written in the other factor order (None when it has none)"""
    if isinstance(spec, (list, tuple)) and len(spec) >= 2 and spec[0] == "quantity" and spec[1] == "derived":
        return ("quantity", "derived_swapped") + tuple(spec[2:])
    if isinstance(spec, (list, tuple)) and spec and spec[0] in ("scalar", "array", "fixedarray"):
        q = _swap_derived(spec[1])
        return None if q is None else (spec[0], q) + tuple(spec[2:])
    return None


def with_twins(specs):
    out = list(specs)
    added = 0
    for sp in specs:
        tw = _swap_derived(sp)
        if tw is not None and added < 2:
            out.append(tw)
            added += 1
    return out


def spec_strategy():
    unit_cat = st.sampled_from(UNITS)
    val = st.one_of(st.sampled_from(VALS), st.sampled_from(VALS), gen.moderate_values(1e-3, 1e3))
    qsimple = unit_cat.map(lambda uc: ("quantity", "simple", uc[0], uc[1]))
    qderived = st.tuples(unit_cat, unit_cat, st.sampled_from([1, -1, 2])).map(lambda t: ("quantity", "derived", list(t[0]), list(t[1]), t[2]))
    qempty = st.just(("quantity", "empty"))
    qunknown = st.sampled_from(["", "foo", "m"]).map(lambda c: ("quantity", "unknown", c))
    qctor = unit_cat.map(lambda uc: ("quantity", "ctor", uc[0], uc[1]))
    qcaptioned = st.tuples(unit_cat, st.sampled_from(["Measured Depth", "foo", ""])).map(lambda t: ("quantity", "captioned", t[0][0], t[0][1], t[1]))
    quantity = st.one_of(qsimple, qsimple, qctor, qderived, qempty, qunknown, qcaptioned)
    kinds = st.sampled_from(["list", "tuple", "ndarray", "ndarray", "ndarray_object", "ndarray_f32", "ndarray_i32"])
    values = st.lists(val, min_size=0, max_size=4)
    values2 = st.lists(val, min_size=2, max_size=4)
    array = st.tuples(quantity, kinds, values).map(lambda t: ("array", t[0], t[1], t[2]))
    fixedarray = st.tuples(quantity, kinds, values2).map(lambda t: ("fixedarray", t[0], t[1], t[2]))
    scalar = st.tuples(quantity, val).map(lambda t: ("scalar", t[0], t[1]))
    frac = st.one_of(st.none(), st.sampled_from([[1, 2], [2, 4], [0, 1], [3, 4], [1, 1]]))
    fvalue = st.tuples(st.sampled_from([0.0, 1.0, 2.0, 5.0]), frac).map(lambda t: ("fvalue", t[0], t[1]))
    fscalar = st.tuples(unit_cat, st.sampled_from([0.0, 1.0, 2.0, 5.0]), frac).map(lambda t: ("fscalar", list(t[0]), t[1], t[2]))
    fraction = st.tuples(st.sampled_from([0, 1, 2, 3, -1]), st.sampled_from([1, 2, 4])).map(lambda t: ("fraction", t[0], t[1]))

    @st.composite
    def curve(draw):
        n = draw(st.integers(0, 3))
        qi, qd = draw(qsimple), draw(qsimple)
        ki, kd = draw(kinds), draw(kinds)
        vi = draw(st.lists(st.sampled_from(VALS), min_size=n, max_size=n))
        vd = draw(st.lists(st.sampled_from(VALS), min_size=n, max_size=n))
        return ("curve", ("array", qi, ki, vi), ("array", qd, kd, vd))

    mapping = st.dictionaries(st.sampled_from(["length", "time", "depth"]), st.sampled_from(["m", "cm", "s"]), max_size=2).map(lambda d: sorted(d.items()))
    unitsystem = st.tuples(st.sampled_from(["id1", "id2"]), st.sampled_from(["cap", "other"]), mapping, st.booleans()).map(lambda t: ("unitsystem", t[0], t[1], [list(i) for i in t[2]], t[3]))
    foreign = st.sampled_from(FOREIGN + ["stdfraction"]).map(lambda n: ("foreign", n))
    return st.one_of(quantity, scalar, scalar, array, array, fixedarray, fscalar, fvalue, fraction, curve(), unitsystem, foreign, foreign)


def _clsname(o):
    return type(o).__name__


class Pool:
    def __init__(self, ctx):
        self.ctx = ctx

    def _cmp(self, a, b, case, i, j):
        ctx = self.ctx
        out = []
        for sym, f in (("==", lambda p, q: p == q), ("!=", lambda p, q: p != q)):
            ctx.ev()
            try:
                r = f(a, b)
                r = bool(r)
            except Exception as e:
                where = core.tree_frame(e) or "outside_tree"
                ctx.fail("equality_raises:%s@%s" % (type(e).__name__, where), dict(case, pair=[i, j]), "%s %s %s raised %s: %s" % (_short(a), sym, _short(b), type(e).__name__, str(e)[:200]))
                r = None
            out.append(r)
        return out

    def check(self, case):
        """case: {"specs": [...]}; all ordered pairs (twice-built objects, so twins are distinct objects)"""
        ctx = self.ctx
        specs = case["specs"]
        objs = [build(_t(s)) for s in specs]
        twins = [build(_t(s)) for s in specs]
        n = len(objs)
        for i in range(n):
            a = objs[i]
            e, ne = self._cmp(a, a, case, i, i)
            if e is not None and not e:
                ctx.fail("not_reflexive:%s" % _clsname(a), dict(case, pair=[i, i]), "%s == itself is False" % _short(a))
            for j in range(n):
                b = twins[j]
                e_ab, ne_ab = self._cmp(a, b, case, i, j)
                e_ba, ne_ba = self._cmp(b, a, case, j, i)
                if None in (e_ab, ne_ab, e_ba, ne_ba):
                    continue
                ca, cb = _clsname(a), _clsname(b)
                if e_ab != e_ba:
                    ctx.fail("eq_not_symmetric:%s:%s" % tuple(sorted((ca, cb))), dict(case, pair=[i, j]), "%s == %s is %r but the converse is %r" % (_short(a), _short(b), e_ab, e_ba))
                if ne_ab == e_ab:
                    ctx.fail("ne_not_negation_of_eq:%s:%s" % (ca, cb), dict(case, pair=[i, j]), "%s vs %s: == gives %r and != gives %r" % (_short(a), _short(b), e_ab, ne_ab))
                if e_ab:
                    try:
                        ha, hb = hash(a), hash(b)
                    except TypeError:
                        ctx.cls("equal_pair_unhashable")
                    else:
                        ctx.ev()
                        if ha != hb:
                            ctx.fail("equal_but_hash_differs:%s:%s" % (ca, cb), dict(case, pair=[i, j]), "%s == %s but the hashes differ" % (_short(a), _short(b)))
                        ctx.cls("equal_pair_hash_checked")
                if i == j and not e_ab:
                    ctx.cls("twin_not_equal_%s" % ca)  # not asserted here (C13/C19 own copy/construction equality)
                if ca != cb or (e_ab and a is not b):
                    ctx.nontrivial(("pool", ca, cb, e_ab), {"a": specs[i], "b": specs[j], "a==b": e_ab} if len(ctx.samples) < 10 else None)
                ctx.cls("pair_%s" % ("equal" if e_ab else "different"))
        for o in objs:
            ctx.cls("obj_%s" % _clsname(o))


def _short(o):
    try:
        return "%s<%s>" % (type(o).__name__, repr(o)[:80])
    except Exception:
        return "%s<unrepr>" % type(o).__name__


def _t(s):
    """lists -> tuples at the spec level where build() indexes only (JSON round trip safe)."""
    return s


# =============================================================================================


def run_shard(spec, ctx):
    db = env.new_db("posc")
    seed = spec["seed"] * 1000 + spec["shard"]
    with env.pushed(db):
        if spec["part"] == "order":
            od = Order(ctx, db)
            items, weights = [], []
            for qt in sorted(db.quantity_types):
                n = len(db.quantity_types[qt])
                for info in db.quantity_types[qt]:
                    items.append((qt, info.unit))
                    weights.append(n if spec["tier"] == "thorough" else 1)
            mine = partition(items, weights, spec["n"])[spec["i"]]
            fr = [(1, 2), (3, 4), (5, 8), (1, 3), (7, 16)]
            thorough = spec["tier"] == "thorough"
            if thorough:
                ctx.exhaustive["ordered unit pairs per quantity type"] = "all"
            else:
                ctx.exhaustive["ordered unit pairs per quantity type"] = "one rotation of the unit list per draw"

            def t_order():
                @given(st.lists(gen.finite_values(1e15, 1e-15), min_size=2, max_size=2), st.lists(st.integers(1, 400), min_size=2, max_size=2))
                def test(xs, rots):
                    ctx.cls("order_value_draws")
                    od.sweep(mine, [1.0] + xs, None if thorough else rots, fr)

                return test

            core.hunt(ctx, t_order, seed, 2 if thorough else 3, shrink=False)

            # cross-type
            pool = dims.DimPool(db, od.um)
            simple_units = [(qt, i.unit) for qt in sorted(db.quantity_types) if qt in od.cats and qt != "Unknown" for i in db.quantity_types[qt]]

            @st.composite
            def operand(draw, allow_derived):
                if allow_derived and draw(st.integers(0, 3)) == 0:
                    l1, l2 = draw(pool.leaf_strategy()), draw(pool.leaf_strategy())
                    return ["derived", draw(st.sampled_from(["*", "/"])), list(l1[1:]), list(l2[1:])]
                qt, u = draw(st.sampled_from(simple_units))
                return ["simple", draw(gen.moderate_values()), u, draw(st.sampled_from(od.cats[qt]))]

            @st.composite
            def cross_case(draw):
                cls = draw(st.sampled_from(["Scalar", "Scalar", "FractionScalar"]))
                der = cls == "Scalar"
                return {"cls": cls, "a": draw(operand(der)), "b": draw(operand(der))}

            def t_cross():
                @given(cross_case())
                def test(case):
                    core.guarded(ctx, od.cross, case)

                return test

            core.hunt(ctx, t_cross, seed + 3, 500 if not thorough else 15000)

            if spec["i"] == 0:
                # a product / quotient / square whose unit *reads* like a table unit of another quantity type
                # (m*m against area's m2, m/s against velocity's m/s): the unit string does not make the types equal
                from bv import grammar

                n_twins = 0
                for T, info in sorted(db.unit_to_unit_info.items()):
                    if info.quantity_type not in od.cats:
                        continue
                    try:
                        comps = list(grammar.parse_unit_string(T).items())
                    except grammar.ParseError:
                        continue
                    if any(u not in db.unit_to_unit_info or db.unit_to_unit_info[u].quantity_type not in od.cats for u, _e in comps):
                        continue
                    exps = sorted(e for _u, e in comps)
                    if len(comps) == 1 and exps == [2]:
                        (u1, _), op = comps[0], "*"
                        u2 = u1
                    elif len(comps) == 2 and exps == [1, 1]:
                        (u1, _), (u2, _), op = comps[0], comps[1], "*"
                    elif len(comps) == 2 and exps == [-1, 1]:
                        u1 = [u for u, e in comps if e == 1][0]
                        u2 = [u for u, e in comps if e == -1][0]
                        op = "/"
                    else:
                        continue
                    leaf = lambda u, x: [x, u, od.cats[db.unit_to_unit_info[u].quantity_type][0]]
                    dspec = ["derived", op, leaf(u1, 2.0), leaf(u2, 3.0)]
                    d = od.build_any("Scalar", dspec)
                    if d.GetUnit() != T or d.quantity_type == info.quantity_type:
                        ctx.cls("unit_twin_skipped")
                        continue
                    case = {"cls": "Scalar", "a": dspec, "b": ["simple", 10.0, T, od.cats[info.quantity_type][0]]}
                    try:
                        od.cross(case)
                    except core.Viol as v:
                        ctx.record(v.key + ":derived_reads_like_a_table_unit", case, v.msg)
                    n_twins += 1
                ctx.cls("derived_that_reads_like_a_table_unit_of_another_type", n_twins)
                ctx.exhaustive["table units that a product / quotient / square of two table units spells"] = "all %d" % n_twins
        else:
            pl = Pool(ctx)

            def t_pool():
                @given(st.lists(spec_strategy(), min_size=4, max_size=9).map(with_twins))
                def test(specs):
                    pl.check({"specs": specs})

                return test

            core.hunt(ctx, t_pool, seed, spec["examples"])


def replay(case, ctx):
    db = env.new_db("posc")
    with env.pushed(db):
        if "specs" in case:
            pl = Pool(ctx)
            try:
                pl.check(case)
            except core.Viol as v:
                return ["%s: %s" % (v.key, v.msg)]
            return []
        od = Order(ctx, db)
        if "rel" in case:
            od.check(case)
            return ["%s: %s" % (k, v["msg"]) for k, v in ctx.violations.items()]
        return core.replay_guarded(ctx, od.cross, case)
