"""C09 — plain numbers act as dimensionless operands and never strip the unit."""
import math

from hypothesis import given, strategies as st

from bv import core, env, gen
from bv.model import UnitModel, dims_of_quantity

PID = "C09"
RULE = (
    "The grid x-kind (Scalar on a simple/derived/empty quantity; Array on a simple/derived quantity backed by list, "
    "tuple, ndarray (float64, also int64 and float32), list/tuple of Python ints up to 4e18 (int and float k only), lengths 0..4; FixedArray list/ndarray; units drawn from every quantity type, half of the time the base unit of the type, with the dimensionless '-' among the favoured; x also created directly on a derived quantity that writes one quantity type in two units (Scalar, list, ndarray), checked against the bug model of known finding 31) x k-type (int, float, numpy float64/float32/int32/int64, "
    "0-d ndarray for Arrays; 1-d float64/int64 ndarray of equal length for Arrays) x the ten forms k*x x*k x/k x//k x+k "
    "k+x x-k k-x k/x k//x is enumerated completely for every Hypothesis draw of (unit/category choice, k magnitude, "
    "element values). Oracle: the result is an instance of x's class carrying a quantity; for the eight non-reciprocal "
    "forms quantity == x's quantity and values == the operator applied elementwise in float64; for k/x and k//x every "
    "unit and category exponent is negated and values == k op x_i. Non-trivial = k is a numpy object, or k stands on "
    "the left, or x is derived; distinct key = (k type, x kind, form)."
)
ASSUMPTIONS = [
    "finite k (zero included except as a divisor) and non-zero element values",
    "float32 operands are compared with relative tolerance 1e-6 (numpy keeps float32 precision for float32 scalars), all others 1e-12",
    "an ndarray k is paired with Arrays only (a Scalar holds one float)",
]
BUDGET_S = {"quick": 120, "thorough": 1200}
EXHAUSTIVE = True  # the type x kind x form grid (values are sampled)
FORMS = ["k*x", "x*k", "x/k", "x//k", "x+k", "k+x", "x-k", "k-x", "k/x", "k//x"]
KTYPES = ["int", "float", "np.float64", "np.float32", "np.int32", "np.int64", "nd0", "nd1_float64", "nd1_int64"]
XKINDS = [
    "scalar_simple", "scalar_derived", "scalar_empty",
    "array_list_simple", "array_tuple_simple", "array_ndarray_simple",
    "array_list_derived", "array_tuple_derived", "array_ndarray_derived", "array_list_empty", "array_ndarrayint_simple", "array_ndarrayf32_simple",
    "fixedarray_list_simple", "fixedarray_ndarray_simple", "fixedarray_tuple_derived",
    # lists / tuples of Python ints up to 4e18: Python numbers do not overflow, so neither may the result
    "array_listint_simple", "array_tupleint_simple", "fixedarray_listint_simple",
    # x created directly on a derived quantity that writes one quantity type in two units (m.cm); see check_mixed
    "scalar_mixed", "array_list_mixed", "array_ndarray_mixed",
]


def plan(tier, seed):
    n = 6 if tier == "quick" else 16
    return [{"tier": tier, "seed": seed, "examples": 60 if tier == "quick" else 1500} for _ in range(n)]


def apply_form(form, k, x):
    if form == "k*x":
        return k * x
    if form == "x*k":
        return x * k
    if form == "x/k":
        return x / k
    if form == "x//k":
        return x // k
    if form == "x+k":
        return x + k
    if form == "k+x":
        return k + x
    if form == "x-k":
        return x - k
    if form == "k-x":
        return k - x
    if form == "k/x":
        return k / x
    if form == "k//x":
        return k // x
    raise ValueError(form)


def ref_value(form, k, v):
    """The operator applied to plain float64 numbers."""
    k = float(k)
    v = float(v)
    if form in ("k*x", "x*k"):
        return k * v
    if form == "x/k":
        return v / k
    if form == "x//k":
        return v // k
    if form in ("x+k", "k+x"):
        return v + k
    if form == "x-k":
        return v - k
    if form == "k-x":
        return k - v
    if form == "k/x":
        return k / v
    if form == "k//x":
        return k // v


def make_k(ktype, mag, n):
    import numpy

    if mag == 0:
        z = {"int": 0, "float": 0.0, "np.float64": numpy.float64(0.0), "np.float32": numpy.float32(0.0), "np.int32": numpy.int32(0), "np.int64": numpy.int64(0), "nd0": numpy.array(0.0)}
        if ktype in z:
            return z[ktype]
        if ktype == "nd1_float64":
            return numpy.zeros(n, dtype=numpy.float64)
        return numpy.zeros(n, dtype=numpy.int64)
    if ktype == "int":
        return int(mag) or 3
    if ktype == "float":
        return float(mag)
    if ktype == "np.float64":
        return numpy.float64(mag)
    if ktype == "np.float32":
        return numpy.float32(mag)
    if ktype == "np.int32":
        return numpy.int32(int(mag) or 3)
    if ktype == "np.int64":
        return numpy.int64(int(mag) or 3)
    if ktype == "nd0":
        return numpy.array(float(mag))
    if ktype == "nd1_float64":
        return numpy.array([float(mag) * (1 + i * 0.5) for i in range(n)], dtype=numpy.float64)
    if ktype == "nd1_int64":
        return numpy.array([(int(mag) or 3) * (i + 1) for i in range(n)], dtype=numpy.int64)
    raise ValueError(ktype)


class Checker:
    def __init__(self, ctx, db):
        self.ctx = ctx
        self.db = db
        self.um = UnitModel(db)

    def make_x(self, case):
        from collections import OrderedDict

        from barril.units import Array, FixedArray, ObtainQuantity, Quantity, Scalar

        kind = case["xkind"]
        cls, rest = kind.split("_", 1)
        vals = list(case["values"])
        if cls == "scalar":
            qkind = rest
            cont = None
        else:
            cont, qkind = rest.split("_")
        if qkind == "simple":
            q = ObtainQuantity(case["u1"], case["c1"])
        elif qkind == "mixed":
            q = Quantity.CreateDerived(OrderedDict((c, [u, e]) for c, u, e in case["mixed"]))
        elif qkind == "empty":
            q = Quantity.CreateEmpty()
        else:
            if case["c1"] == case["c2"]:
                q = Quantity.CreateDerived(OrderedDict([(case["c1"], [case["u1"], 1 + case["e2"]])])) if 1 + case["e2"] else Quantity.CreateDerived(OrderedDict([(case["c1"], [case["u1"], 2])]))
            else:
                q = Quantity.CreateDerived(OrderedDict([(case["c1"], [case["u1"], 1]), (case["c2"], [case["u2"], case["e2"]])]))
        if cls == "scalar":
            return Scalar.CreateWithQuantity(q, vals[0] if vals else 1.5), Scalar
        if cont in ("listint", "tupleint"):
            ints = [int(i) or 1 for i in case.get("bigints", [])]  # (no zeros: k / x is part of the grid)
            if cls == "fixedarray":
                ints = (ints + [3, 5])[: max(2, len(ints))]
                return FixedArray.CreateWithQuantity(q, list(ints), dimension=len(ints)), FixedArray
            return Array.CreateWithQuantity(q, list(ints) if cont == "listint" else tuple(ints)), Array
        if cls == "array":
            if cont == "ndarrayint":
                return Array.CreateWithQuantity(q, gen.as_container("ndarray_int", [int(round(v)) or 1 for v in vals])), Array
            if cont == "ndarrayf32":
                return Array.CreateWithQuantity(q, gen.as_container("ndarray_f32", vals)), Array
            return Array.CreateWithQuantity(q, gen.as_container(cont, vals)), Array
        vals = (vals + [1.5, 2.5])[: max(2, len(vals))]
        return FixedArray.CreateWithQuantity(q, gen.as_container(cont, vals), dimension=len(vals)), FixedArray

    def check(self, case):
        """case: xkind, ktype, form, u1,c1,u2,c2,e2, kmag, values"""
        import numpy

        from barril.units import Array, Scalar

        ctx = self.ctx
        x, cls = self.make_x(case)
        is_scalar = cls is Scalar
        xv = [x.GetValue()] if is_scalar else list(x.GetValues())
        n = len(xv)
        ktype, form = case["ktype"], case["form"]
        if case["kmag"] == 0 and form in ("x/k", "x//k"):
            return  # division by zero is not part of the statement
        k = make_k(ktype, case["kmag"], n)
        qx = x.GetQuantity()
        before = (qx, list(xv))
        ctx.ev()
        try:
            r = apply_form(form, k, x)
        except Exception as e:
            where = core.tree_frame(e) or "outside_tree:%s" % type(e).__name__
            ctx.fail("operation_raises:%s@%s:%s" % (type(e).__name__, where, "empty" if n == 0 else "nonempty"), case, "%s with k=%r (%s), x=%r raised %s: %s" % (form, k, ktype, x, type(e).__name__, str(e)[:200]))
            return
        cell = "%s|%s|%s" % (ktype, case["xkind"], form)
        left = form[0] == "k"
        nump = ktype.startswith(("np.", "nd"))
        derived = "derived" in case["xkind"]
        side = "k_left" if left else "k_right"
        kcls = "ndarray" if ktype.startswith("nd") else ("numpy_scalar" if nump else "python_number")
        # 1. the result is a barril object of x's class, carrying a quantity
        if not isinstance(r, cls):
            ctx.fail("unit_stripped:%s:%s:%s" % (kcls, side, cls.__name__), case, "%s with k=%r (%s) and x=%r returned %s %r instead of a %s" % (form, k, ktype, x, type(r).__name__, r, cls.__name__))
            return
        qr = r.GetQuantity()
        recip = form in ("k/x", "k//x")
        if "mixed" in case["xkind"] and (recip or qr != qx):
            return self.check_mixed(case, x, xv, cls, form, ktype, k, r)
        if not recip:
            if qr != qx:
                ctx.fail("quantity_changed:%s:%s" % (form, cls.__name__), case, "%s: x has quantity %r, the result %r" % (form, qx, qr))
        else:
            want_u = sorted((u, -e) for u, e in qx.GetComposingUnitsJoiningExponents())
            got_u = sorted(qr.GetComposingUnitsJoiningExponents())
            want_c = sorted((c, u, -e) for c, (u, e) in qx.GetCategoryToUnitAndExps().items())
            got_c = sorted((c, u, e) for c, (u, e) in qr.GetCategoryToUnitAndExps().items())
            # the result is a quantity of this database, and its quantity-type string is the reciprocal of x's own
            if "mixed" not in case["xkind"] and (qr.GetUnitDatabase() is not self.db or (not qx.IsDerived() and qx.GetQuantityType() and qx.GetQuantityType() not in qr.GetQuantityType())):
                ctx.fail("reciprocal_quantity_of_another_database_or_type:%s" % cls.__name__, case, "%s: x is %r (quantity type %r); the result has quantity type %r and belongs to %s database" % (form, qx, qx.GetQuantityType(), qr.GetQuantityType(), "this" if qr.GetUnitDatabase() is self.db else "another"))
            if want_u != got_u or want_c != got_c:
                ctx.fail("reciprocal_dimension_wrong:%s" % cls.__name__, case, "%s: x is %r; the result has units %r / categories %r, expected %r / %r" % (form, qx, got_u, got_c, want_u, want_c))
        # 2. values
        rv = [r.GetValue()] if is_scalar else list(r.GetValues())
        if len(rv) != n:
            ctx.fail("result_length:%s" % cls.__name__, case, "%s: x has %d elements, the result %d" % (form, n, len(rv)))
            return
        rel = 1e-6 if (ktype == "np.float32" or "f32" in case["xkind"]) else 1e-12
        ks = list(k) if ktype.startswith("nd1") else [k] * n
        for kk, v, got in zip(ks, xv, rv):
            want = ref_value(form, kk, v)
            ctx.ev()
            tol_scale = abs(want) + (abs(float(kk)) + abs(v) if form[1] in "+-" or form[-2] in "+-" else 0.0)
            if "//" in form:
                # floor division of float32-rounded operands may legitimately land on the other side of an integer
                if ktype == "np.float32" or "f32" in case["xkind"]:
                    continue
            if not (isinstance(got, (float, int, numpy.floating, numpy.integer)) and core.close(float(got), want, tol_scale, rel)):
                ctx.fail("value_wrong:%s:%s" % (form, cls.__name__), case, "%s with k=%r (%s), element %r: got %r, expected %r" % (form, kk, ktype, v, got, want))
        # 3. the operand is untouched
        after = (x.GetQuantity(), [x.GetValue()] if is_scalar else list(x.GetValues()))
        if after[0] is not before[0] or after[1] != before[1]:
            ctx.fail("operand_changed", case, "%s changed x from %r to %r" % (form, before, after))
        ctx.cls("cell_checked")
        ctx.cls("k_%s" % kcls)
        ctx.cls(side)
        if n == 0:
            ctx.cls("empty_container")
        if nump or left or derived:
            ctx.nontrivial(cell, {"cell": cell, "k": k, "x": repr(x), "result": repr(r)} if (len(ctx.samples) < 10 and nump and left) else None)


def _check_mixed(self, case, x, xv, cls, form, ktype, k, r):
    """x writes one quantity type in two units.  The statement wants x's quantity kept and the operator applied to the
    value(s).  Scalars do that; the reciprocal forms and every Array form first match x's units to each other (the unit
    written first for a quantity type wins).  Bug model (known findings): result quantity = x's categories in the
    matched units, result values = operator applied to x's values re-expressed in the matched units - for * and / the
    amount is still right, for + - // the number is applied in the matched units and the amount is another one."""
    from barril.units import Scalar

    ctx, um = self.ctx, self.um
    spec = case["mixed"]
    first, f = {}, 1.0
    for c, u, e in spec:
        fu = first.setdefault(um.qt[u], u)
        f *= (um.slope[u] / um.slope[fu]) ** e
    tot = {}
    for c, u, e in spec:
        tot[um.qt[u]] = tot.get(um.qt[u], 0) + e
    if not (1e-12 < abs(f) < 1e12):
        ctx.cls("mixed_units_skipped_extreme_factor")  # float32 operands overflow there: numpy's business
        return
    recip = form in ("k/x", "k//x")
    mult = form in ("k*x", "x*k", "x/k", "x//k", "k/x", "k//x")
    sign = -1 if recip else 1
    want_map = [(c, first[um.qt[u]], sign * e) for c, u, e in spec if not (mult and tot[um.qt[u]] == 0)]
    got_map = [(c, u, e) for c, (u, e) in r.GetQuantity().GetCategoryToUnitAndExps().items()]
    ctx.ev()
    if got_map != want_map:
        ctx.fail("quantity_changed:%s:%s:mixed_units" % (form, cls.__name__), case, "%s with x=%r: the result has %r, neither x's quantity nor x's categories in the matched units %r" % (form, x, got_map, want_map))
        return
    rv = [r.GetValue()] if cls is Scalar else list(r.GetValues())
    ks = list(k) if ktype.startswith("nd1") else [k] * len(xv)
    rel = 1e-6 if (ktype == "np.float32") else 1e-9
    for kk, v, got in zip(ks, xv, rv):
        want = ref_value(form, kk, v * f)
        if "//" in form and ktype == "np.float32":
            continue
        if not core.close(float(got), want, abs(want) + abs(float(kk)) + abs(v * f), rel):
            if "//" in form and abs(float(got) - want) <= 1.0 and abs(ref_value(form.replace("//", "/"), kk, v * f) - round(ref_value(form.replace("//", "/"), kk, v * f))) < 1e-6:
                continue  # the re-expressed value sits on an integer boundary of the floor
            ctx.fail("value_wrong:%s:%s:mixed_units" % (form, cls.__name__), case, "%s with k=%r, x=%r: got %r; x re-expressed in the matched units is %r, the operator gives %r" % (form, kk, x, got, v * f, want))
            return
    if form in ("k*x", "x*k", "x/k", "k/x"):
        ctx.fail("quantity_not_kept:x_mixes_units_of_one_type:units_matched_first:amount_right", case, "%s with x=%r gives %r: x's units were matched to each other first (the amount is right)" % (form, x, r))
    else:
        ctx.fail("number_applied_in_matched_units:x_mixes_units_of_one_type:%s" % ("floor" if "//" in form else "additive"), case, "%s with k=%r, x=%r gives %r: the number was applied after x's units were matched to each other" % (form, k, x, r))


Checker.check_mixed = _check_mixed


def grid():
    for xkind in XKINDS:
        for ktype in KTYPES:
            if ktype.startswith("nd") and xkind.startswith("scalar"):
                continue
            if "int_simple" in xkind and "ndarray" not in xkind and ktype not in ("int", "float"):
                continue  # a numpy number meeting a Python int beyond int64 is numpy's business, not the library's
            for form in FORMS:
                yield xkind, ktype, form


def _strategies(db, um):
    cats = {}
    for c in db.IterCategories():
        cats.setdefault(db.GetCategoryQuantityType(c), []).append(c)
    qts = [qt for qt in sorted(db.quantity_types) if qt in cats and qt != "Unknown"]
    fav = ["length", "time", "mass", "pressure", "temperature", "volume", "dimensionless"]

    @st.composite
    def uc(draw):
        qt = draw(st.one_of(st.sampled_from(fav), st.sampled_from(qts)))
        us = [i.unit for i in db.quantity_types[qt]]
        # the base unit of a type is structurally special (for 'dimensionless' it is the bare '-'): half of the draws
        u = draw(st.one_of(st.just(us[0]), st.sampled_from(us)))
        return u, draw(st.sampled_from(cats[qt]))

    mqts = [qt for qt in qts if len(cats[qt]) >= 2 and len(um.scale_units(qt)) >= 2]

    @st.composite
    def mixed_spec(draw):
        qt = draw(st.sampled_from([q for q in fav if q in mqts] + mqts[:20]))
        c1, c2 = draw(st.permutations(cats[qt]))[:2]
        u1, u2 = draw(st.permutations(list(um.scale_units(qt))[:8]))[:2]
        e1, e2 = draw(st.sampled_from([(1, 1), (1, 2), (2, -1), (1, -1), (-1, 2)]))
        spec = [[c1, u1, e1], [c2, u2, e2]]
        if draw(st.booleans()):
            qt3 = draw(st.sampled_from(fav))
            if qt3 != qt:
                spec.append([draw(st.sampled_from(cats[qt3])), draw(st.sampled_from(list(um.scale_units(qt3))[:6])), draw(st.sampled_from([1, -1]))])
        return spec

    @st.composite
    def base(draw):
        u1, c1 = draw(uc())
        u2, c2 = draw(uc())
        e2 = draw(st.sampled_from([1, -1, 2, -2]))
        if db.GetCategoryQuantityType(c1) == db.GetCategoryQuantityType(c2):
            # arithmetic keeps one unit per quantity type and drops factors whose total exponent is zero:
            # a directly built quantity that violates this is not a value arithmetic can produce
            u2 = u1
            if 1 + e2 == 0:
                e2 = 1
        return {
            "u1": u1,
            "c1": c1,
            "u2": u2,
            "c2": c2,
            "e2": e2,
            # (decimal fractions on both sides: 1.0 // 0.1 is 9.0, the floor of the rounded quotient would be 10.0)
            "kmag": draw(st.one_of(st.sampled_from([2.0, 3.0, -2.0, 7.0, 0.0, 1.0, -1.0, 0.0, 0.1, 0.3, 0.7]), gen.moderate_values(1.0, 1e3))),
            "values": draw(st.lists(st.one_of(gen.moderate_values(1e-2, 1e4), st.sampled_from([1.0, 6.0, 0.3, 0.9, 2.1, 0.6, 4.2])), min_size=0, max_size=4)),
            "mixed": draw(mixed_spec()),
            "bigints": draw(st.lists(st.one_of(st.integers(-4 * 10**18, 4 * 10**18), st.integers(-1000, 1000), st.sampled_from([2**62, -(2**62), 2**63 - 1, 10**18])), min_size=0, max_size=4)),
        }

    return base()


def _decoy_first():
    """the same divisions are done first while a project database is current in which the same category names and unit
    symbols belong to quantity types with other names"""
    import numpy

    from barril.units import Array, Scalar

    rn = env.renamed_db()
    with env.pushed(rn):
        for u, c in (("m", "length"), ("cm", "length"), ("ft", "depth"), ("km", "diameter"), ("s", "time"), ("min", "time"), ("K", "temperature"), ("degC", "temperature")):
            x = Scalar(3.0, u, c)
            2.0 / x, 2 // x, numpy.float64(2.0) / x, x * 2.0, 2.0 * x
            a = Array([3.0, 4.0], u, c)
            2.0 / a, a / 2.0


def run_shard(spec, ctx):
    _decoy_first()
    ctx.cls("decoy_database_divided_first")
    db = env.new_db("posc")
    with env.pushed(db):
        ch = Checker(ctx, db)
        base = _strategies(db, ch.um)
        cells = list(grid())
        ctx.exhaustive["operand type x container kind x operator form grid"] = "%d cells, all for every draw" % len(cells)

        def t():
            @given(base)
            def test(b):
                for xkind, ktype, form in cells:
                    ch.check(dict(b, xkind=xkind, ktype=ktype, form=form))

            return test

        core.hunt(ctx, t, spec["seed"] * 1000 + spec["shard"], spec["examples"], max_root_causes=12)


def replay(case, ctx):
    _decoy_first()
    db = env.new_db("posc")
    with env.pushed(db):
        ch = Checker(ctx, db)
        return core.replay_guarded(ctx, ch.check, case)
