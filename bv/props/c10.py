"""C10 — Array results equal elementwise Scalar results for every container kind."""
from hypothesis import given, strategies as st

from bv import core, dims, env, gen
from bv.model import UnitModel

PID = "C10"
RULE = (
    "Hypothesis generates two quantities (simple table units incl. affine, or derived shapes from the C03/C04 "
    "generators; for + and - two instances of one shape), element vectors of equal length 0..6, one of the five "
    "operators + - * / //, and then ALL nine (list,tuple,ndarray)x(list,tuple,ndarray) container combinations are "
    "evaluated. Oracle (differential): Array(a) op Array(b) has, for every i, the value of Scalar(a_i) op Scalar(b_i) "
    "(rel 1e-12) and the Scalar result's quantity (==), identically for all nine combinations, plus six combinations with an "
    "integer-dtype ndarray (whole numbers) on one side and fractional values on the other; operands of different "
    "lengths (incl. length 0 or 1 against n) must raise for every combination; Array.FromScalars(scalars)[i] is "
    "scalars[i] re-expressed in the array's unit (db float conversion, 1e-12*S) with mixed units/categories, also "
    "with unit=/category= given; Array.GetValues(unit)[i] == Scalar(a_i).GetValue(unit) for every container kind; where the Scalar conversion is not a number (a unit of another quantity type is rejected, the Unknown quantity returns the amount unchanged) every container kind does the same; a plain number as the other operand (either side, + - * / //) gives element by element what the Scalars give; all of it also on the simple length/time filler whose units are formula strings. "
    "Array operations and conversions made while a project database is current give what the Scalars gave while their own database was current; products and quotients also over units with an offset. A derived operand and the simple quantity of the table unit that reads the same (m*m against area m2, m/s, kg/m3): whether the sum is accepted does not depend on the container kinds. Non-trivial = length >= 2 and (containers differ or units differ); key = (containers, op, length, quantities)."
)
ASSUMPTIONS = [
    "one-dimensional containers of finite floats; right operands non-zero for / and //",
    "the result's container kind is not asserted (only values and quantity)",
    "floor division is compared between routes exactly as computed by each route (same float operations), tolerance 1e-12 like the others except across an integer boundary, which is skipped",
]
BUDGET_S = {"quick": 150, "thorough": 1500}
KINDS = gen.CONTAINER_KINDS
OPS = ["+", "-", "*", "/", "//"]


def plan(tier, seed):
    n = 6 if tier == "quick" else 16
    specs = [{"tier": tier, "seed": seed, "n": 700 if tier == "quick" else 12000} for _ in range(n)]
    # the same checks on the library's simple length/time filler, whose units are given by formula strings
    specs.append({"tier": tier, "seed": seed, "n": 300 if tier == "quick" else 4000, "db": "simple"})
    return specs


def _apply(op, a, b):
    if op == "+":
        return a + b
    if op == "-":
        return a - b
    if op == "*":
        return a * b
    if op == "/":
        return a / b
    return a // b


def _q(spec):
    """quantity from {"d": {cat: [unit, exp]}} (derived or simple)"""
    from collections import OrderedDict

    from barril.units import ObtainQuantity, Quantity

    d = spec["d"]
    if len(d) == 1:
        (c, (u, e)), = d.items()
        if e == 1:
            return ObtainQuantity(u, c)
    return Quantity.CreateDerived(OrderedDict((c, [u, e]) for c, (u, e) in d.items()))


_SKEWED = None


def _same_repr_value(a, b):
    """two Scalar reprs 'Scalar(v, unit, category)': same unit and category, values equal up to rounding"""
    import re

    ma, mb = re.match(r"^\w+\((.*?), (.*)\)$", a), re.match(r"^\w+\((.*?), (.*)\)$", b)
    if not ma or not mb or ma.group(2) != mb.group(2):
        return False
    x, y = float(ma.group(1)), float(mb.group(1))
    return x == y or abs(x - y) <= 1e-12 * (abs(x) + abs(y)) or (x != x and y != y)


class Checker:
    def __init__(self, ctx, db):
        self.ctx = ctx
        self.db = db
        self.um = UnitModel(db)
        self.pool = dims.DimPool(db, self.um)

    # -- arithmetic -------------------------------------------------------------------------------
    def check_op(self, case):
        """case: qa, qb ({"d":...}), va, vb (equal lengths), op"""
        import math

        from barril.units import Array, Scalar

        ctx = self.ctx
        qa, qb = _q(case["qa"]), _q(case["qb"])
        va, vb, op = list(case["va"]), list(case["vb"]), case["op"]
        n = len(va)
        assert len(vb) == n
        # reference: elementwise Scalars
        ref = []
        try:
            for x, y in zip(va, vb):
                ref.append(_apply(op, Scalar.CreateWithQuantity(qa, x), Scalar.CreateWithQuantity(qb, y)))
            ctx.ev(n)
            if n:
                ref_q = ref[0].GetQuantity()
            else:
                ref_q = _apply(op, Scalar.CreateWithQuantity(qa, 2.0), Scalar.CreateWithQuantity(qb, 3.0)).GetQuantity()
        except ZeroDivisionError:
            # a divisor that is exactly zero once it is re-expressed in the other operand's offset unit (1 atm is
            # 0 bar(g)): division by zero is not part of the statement
            ctx.cls("skipped_divisor_zero_after_matching")
            return
        differs = dict(case["qa"]["d"]) != dict(case["qb"]["d"])
        for ka in KINDS:
            for kb in KINDS:
                A = Array.CreateWithQuantity(qa, gen.as_container(ka, va))
                B = Array.CreateWithQuantity(qb, gen.as_container(kb, vb))
                sub = dict(case, ka=ka, kb=kb)
                ctx.ev()
                try:
                    R = _apply(op, A, B)
                except Exception as e:
                    where = core.tree_frame(e) or "outside_tree"
                    ctx.fail("array_op_raises:%s@%s:%s" % (type(e).__name__, where, "empty" if n == 0 else "nonempty"), sub, "Array(%s) %s Array(%s) raised %s: %s (the Scalar route gives %r)" % (ka, op, kb, type(e).__name__, str(e)[:200], ref[:2]))
                    continue
                if not isinstance(R, Array):
                    ctx.fail("array_op_not_array", sub, "Array(%s) %s Array(%s) returned %r" % (ka, op, kb, type(R)))
                    continue
                if R.GetQuantity() != ref_q:
                    ctx.fail("array_quantity_differs_from_scalar:%s" % op, sub, "Array(%s) %s Array(%s) has quantity %r, the Scalar result %r" % (ka, op, kb, R.GetQuantity(), ref_q))
                rv = list(R.GetValues())
                if len(rv) != n:
                    ctx.fail("array_result_length:%s:%s" % (ka, kb), sub, "operands have %d elements, the result %d" % (n, len(rv)))
                    continue
                for i, (got, s) in enumerate(zip(rv, ref)):
                    want = s.GetValue()
                    ctx.ev()
                    if op == "//" and got != want and abs(got - want) == 1.0:
                        ctx.cls("floor_boundary_skipped")
                        continue
                    scale = abs(want)
                    if op in "+-":
                        scale = abs(va[i]) + abs(want) + abs(got)
                    if not core.close(float(got), want, scale, 1e-12):
                        ctx.fail("array_element_differs_from_scalar:%s:%s" % (op, "numpy" if "ndarray" in (ka, kb) else "python"), dict(sub, i=i), "element %d of Array(%s) %s Array(%s) is %r, Scalar %r %s Scalar %r gives %r" % (i, ka, op, kb, got, va[i], op, vb[i], want))
                ctx.cls("combo_%s_%s" % (ka, kb))
                if n >= 2 and (ka != kb or differs):
                    ctx.nontrivial((ka, kb, op, n, repr(case["qa"]), repr(case["qb"])), sub if len(ctx.samples) < 8 and ka != kb and differs else None)
        # an integer-dtype ndarray on one side (whole numbers) against fractional values on the other: the values
        # of the other operand must not be coerced to the integer dtype
        if n:
            ia = [float(round(x)) or 1.0 for x in va]
            ib = [float(round(y)) or 1.0 for y in vb]
            for side, xa, xb, kinds in (("left", ia, vb, (("ndarray_int", "list"), ("ndarray_int", "tuple"), ("ndarray_int", "ndarray"))), ("right", va, ib, (("list", "ndarray_int"), ("tuple", "ndarray_int"), ("ndarray", "ndarray_int")))):
                try:
                    refi = [_apply(op, Scalar.CreateWithQuantity(qa, x), Scalar.CreateWithQuantity(qb, y)) for x, y in zip(xa, xb)]
                except ZeroDivisionError:
                    ctx.cls("skipped_divisor_zero_after_matching")  # (1 atm is 0 bar(g))
                    continue
                for ka, kb in kinds:
                    A = Array.CreateWithQuantity(qa, gen.as_container(ka, [int(x) for x in xa] if ka == "ndarray_int" else xa))
                    B = Array.CreateWithQuantity(qb, gen.as_container(kb, [int(y) for y in xb] if kb == "ndarray_int" else xb))
                    sub = dict(case, ka=ka, kb=kb, int_side=side)
                    ctx.ev()
                    try:
                        R = _apply(op, A, B)
                    except Exception as e:
                        where = core.tree_frame(e) or "outside_tree"
                        ctx.fail("array_op_raises:%s@%s:int_ndarray" % (type(e).__name__, where), sub, "Array(%s) %s Array(%s) raised %s: %s" % (ka, op, kb, type(e).__name__, str(e)[:200]))
                        continue
                    for i, (got, sref) in enumerate(zip(list(R.GetValues()), refi)):
                        want = sref.GetValue()
                        if op == "//" and got != want and abs(got - want) == 1.0:
                            continue
                        scale = abs(want) + (abs(xa[i]) + abs(got) if op in "+-" else 0.0)
                        if not core.close(float(got), want, scale, 1e-12):
                            ctx.fail("array_element_differs_from_scalar:%s:int_ndarray" % op, dict(sub, i=i), "element %d of Array(%s %r) %s Array(%s %r) is %r, the Scalars give %r" % (i, ka, xa, op, kb, xb, got, want))
                    ctx.cls("combo_with_int_ndarray")
        ctx.cls("op_%s" % op)
        ctx.cls("len_%d" % n)
        if differs:
            ctx.cls("quantities_differ")

    # -- unequal lengths --------------------------------------------------------------------------
    def check_lengths(self, case):
        """case: qa, qb, va, vb (different lengths), op"""
        from barril.units import Array

        ctx = self.ctx
        qa, qb = _q(case["qa"]), _q(case["qb"])
        va, vb, op = list(case["va"]), list(case["vb"]), case["op"]
        assert len(va) != len(vb)
        for ka in KINDS:
            for kb in KINDS:
                A = Array.CreateWithQuantity(qa, gen.as_container(ka, va))
                B = Array.CreateWithQuantity(qb, gen.as_container(kb, vb))
                ctx.ev()
                try:
                    R = _apply(op, A, B)
                except Exception:
                    ctx.cls("unequal_lengths_rejected")
                    continue
                kindcls = "numpy" if "ndarray" in (ka, kb) else "python"
                bc = "broadcast_len1" if 1 in (len(va), len(vb)) else ("with_empty" if 0 in (len(va), len(vb)) else "truncated")
                ctx.fail("unequal_lengths_accepted:%s:%s" % (kindcls, bc), dict(case, ka=ka, kb=kb), "Array(%s, %d elements) %s Array(%s, %d elements) returned %r instead of raising" % (ka, len(va), op, kb, len(vb), R))
        ctx.nontrivial(("lengths", len(va), len(vb), op))

    # -- FromScalars --------------------------------------------------------------------------------
    def check_from_scalars(self, case):
        """case: qt, items [(value, unit, category)], unit (or None), category (or None)"""
        from barril.units import Array, Scalar

        ctx, db, um = self.ctx, self.db, self.um
        qt = case["qt"]
        scalars = [Scalar(v, u, c) for v, u, c in case["items"]]
        kw = {}
        if case.get("unit"):
            kw["unit"] = case["unit"]
        if case.get("category"):
            kw["category"] = case["category"]
        ctx.ev()
        arr = Array.FromScalars(scalars, **kw)
        if not scalars:
            if len(arr) != 0:
                ctx.fail("from_scalars_empty_not_empty", case, "FromScalars([]) has %d elements" % len(arr))
            return
        want_unit = case.get("unit") or case["items"][0][1]
        want_cat = case.get("category") or case["items"][0][2]
        if arr.GetUnit() != want_unit or arr.GetCategory() != want_cat:
            ctx.fail("from_scalars_unit_or_category", case, "FromScalars gave unit %r category %r, expected %r %r" % (arr.GetUnit(), arr.GetCategory(), want_unit, want_cat))
        if len(arr) != len(scalars):
            ctx.fail("from_scalars_length", case, "%d scalars gave %d elements" % (len(scalars), len(arr)))
            return
        mixed = len(set(u for _, u, _ in case["items"])) > 1
        for i, (v, u, c) in enumerate(case["items"]):
            want = db.Convert(qt, u, want_unit, v)
            S = um.conv_scale(u, want_unit, v)
            ctx.ev()
            got = arr[i]
            if u == want_unit and got != v:
                ctx.fail("from_scalars_same_unit_not_exact", dict(case, i=i), "element %d is %r, the scalar holds %r %s" % (i, got, v, u))
            if not core.close(got, want, S, 1e-12):
                ctx.fail("from_scalars_amount_changed", dict(case, i=i), "element %d of FromScalars is %r %s, the scalar %r %s is %r %s" % (i, got, want_unit, v, u, want, want_unit))
        ctx.cls("from_scalars_mixed_units" if mixed else "from_scalars_one_unit")
        if mixed and len(scalars) >= 2:
            ctx.nontrivial(("from_scalars", qt, tuple(u for _, u, _ in case["items"]), want_unit), case if len(ctx.samples) < 10 else None)

    # -- GetValues(unit) ------------------------------------------------------------------------------
    def check_get_values(self, case):
        """case: qt, u, v, c, values"""
        from barril.units import Array, Scalar

        ctx = self.ctx
        u, v, c, vals = case["u"], case["v"], case["c"], list(case["values"])
        ref = [Scalar(x, u, c).GetValue(v) for x in vals]
        for k in KINDS:
            A = Array(gen.as_container(k, vals), u, c)
            ctx.ev()
            got = list(A.GetValues(v))
            if len(got) != len(ref):
                ctx.fail("get_values_length:%s" % k, dict(case, kind=k), "GetValues(%r) returned %d elements for %d" % (v, len(got), len(ref)))
                continue
            for i, (g, w) in enumerate(zip(got, ref)):
                S = self.um.conv_scale(u, v, vals[i])
                if not core.close(float(g), w, S, 1e-12):
                    ctx.fail("get_values_differs_from_scalar:%s" % k, dict(case, kind=k, i=i), "Array(%s).GetValues(%r)[%d] = %r, Scalar(%r,%r).GetValue(%r) = %r" % (k, v, i, g, vals[i], u, v, w))
            # the caller edits the container it received; the Array's next answers are still the converted amounts
            if u != v and len(got) and k != "tuple":
                first = A.GetValues(v)
                try:
                    first[0] = 12345.678
                except TypeError:
                    first = None
                if first is not None:
                    for what, again in (("GetValues", list(A.GetValues(v))), ("CreateCopy(unit)", list(A.CreateCopy(unit=v).GetValues()))):
                        ctx.ev()
                        if len(again) != len(ref) or not core.close(float(again[0]), ref[0], self.um.conv_scale(u, v, vals[0]), 1e-12):
                            ctx.fail("conversion_result_shared_with_caller:%s:%s" % (what, k), dict(case, kind=k), "Array(%s).%s(%r) after the caller edited the container returned by an earlier GetValues(%r): element 0 is %r, expected %r" % (k, what, v, v, again[0], ref[0]))
                    if list(A.GetValues()) != [float(t) for t in vals] and k != "ndarray":
                        ctx.fail("conversion_edit_reached_the_array:%s" % k, dict(case, kind=k), "editing the converted container changed the Array's own values")
            ctx.cls("get_values_%s" % k)
        if u != v and len(vals) >= 2:
            ctx.nontrivial(("get_values", u, v, len(vals)))


    # -- a plain number as the other operand: element by element what the Scalars give, in every container ------
    def check_number_operand(self, case):
        """case: number=True, q ({"d":...}), values, k, op, side ('left' | 'right')"""
        from barril.units import Array, Scalar

        ctx = self.ctx
        q = _q(case["q"])
        vals, k, op, left = list(case["values"]), case["k"], case["op"], case["side"] == "left"
        if op in ("/", "//") and (k == 0 or (left and any(v == 0 for v in vals))):
            return
        ref = [(_apply(op, k, Scalar.CreateWithQuantity(q, x)) if left else _apply(op, Scalar.CreateWithQuantity(q, x), k)) for x in vals]
        for kind in KINDS:
            A = Array.CreateWithQuantity(q, gen.as_container(kind, vals))
            ctx.ev()
            R = _apply(op, k, A) if left else _apply(op, A, k)
            got = [float(t) for t in R.GetValues()]
            want = [float(r.GetValue()) for r in ref]
            if len(got) != len(want) or any(not core.close(g, w, abs(w) + abs(float(k)), 1e-12) for g, w in zip(got, want)) or (ref and R.GetQuantity() != ref[0].GetQuantity()):
                ctx.fail("array_with_number_differs_from_scalars:%s:%s" % (op, "number_left" if left else "number_right"), dict(case, kind=kind), "%s with Array(%s) %r and k=%r gives %r, the Scalars give %r" % (("k %s x" if left else "x %s k") % op, kind, A, k, R, ref))
        ctx.cls("number_operand_checked")
        if vals:
            ctx.nontrivial(("number", op, case["side"], len(vals), repr(sorted(case["q"]["d"].items()))))

    # -- whether a sum is accepted at all does not depend on the container kind -------------------------------------
    def check_sum_outcome(self, case):
        """case: sum_outcome=True, unit (a table unit that reads like a composition: m2, m/s, kg/m3), comp ([(category,
        unit, exp)] composing it), va, vb, op.  One operand is derived by arithmetic, the other is the simple quantity
        of the table unit: the two read the same ('m2') and are different quantities.  Whatever the Scalars do with
        a + b (they refuse), every container kind does too."""
        from collections import OrderedDict

        from barril.units import Array, Quantity, Scalar

        ctx = self.ctx
        va, vb, op = list(case["va"]), list(case["vb"]), case["op"]
        qd = Quantity.CreateDerived(OrderedDict((c, [u, e]) for c, u, e in case["comp"]))
        qs = Scalar(1.0, case["unit"]).GetQuantity()

        def outcome(fn):
            try:
                r = fn()
            except Exception as e:
                if core.tree_frame(e) is None and not isinstance(e, TypeError):
                    raise
                return "raises"
            return "returns"

        for first, second, tag in ((qd, qs, "derived_first"), (qs, qd, "simple_first")):
            ref = outcome(lambda: _apply(op, Scalar.CreateWithQuantity(first, va[0]), Scalar.CreateWithQuantity(second, vb[0])))
            for ka in KINDS:
                for kb in KINDS:
                    ctx.ev()
                    got = outcome(lambda: _apply(op, Array.CreateWithQuantity(first, gen.as_container(ka, va)), Array.CreateWithQuantity(second, gen.as_container(kb, vb))))
                    if got != ref:
                        ctx.fail("sum_accepted_or_refused_depending_on_the_container:%s" % tag, dict(case, ka=ka, kb=kb), "%r %s %r: the Scalars: %s, Array(%s) with Array(%s): %s" % (first, op, second, ref, ka, kb, got))
        ctx.cls("sum_outcome_checked")
        ctx.nontrivial(("sum_outcome", case["unit"], op))

    # -- the operands' own database decides, not the one that happens to be current --------------------------------
    def check_other_database_current(self, case):
        """case: other_db=True, ua, ub, va, vb, op.  Arrays and Scalars of this database are operated on while a
        project database (same symbols, other factors) is current: element by element what the Scalars gave while
        their own database was current."""
        from barril.units import Array, Scalar

        ctx = self.ctx
        ua, ub, va, vb, op = case["ua"], case["ub"], list(case["va"]), list(case["vb"]), case["op"]
        n = min(len(va), len(vb))
        va, vb = va[:n], vb[:n]
        if op in ("/", "//") and any(y == 0 for y in vb):
            return
        try:
            ref = [repr(_apply(op, Scalar(x, ua), Scalar(y, ub))) for x, y in zip(va, vb)]
        except ZeroDivisionError:
            ctx.cls("skipped_divisor_zero_after_matching")
            return
        same_type = Scalar(1.0, ua).GetQuantityType() == Scalar(1.0, ub).GetQuantityType()
        conv = [Scalar(x, ua).GetValue(ub) for x in va] if same_type else None
        global _SKEWED
        if _SKEWED is None:
            _SKEWED = env.skewed_db()
        arrays = [(k, Array(gen.as_container(k, va), ua), Array(gen.as_container(k, vb), ub)) for k in KINDS]
        ctx.ev()
        with env.pushed(_SKEWED):
            for k, A, B in arrays:
                R = _apply(op, A, B)
                got = [repr(Scalar.CreateWithQuantity(R.GetQuantity(), float(t))) for t in R.GetValues()]
                gconv = [float(t) for t in A.GetValues(ub)] if same_type else None
                if len(got) != n or any(not _same_repr_value(g, w) for g, w in zip(got, ref)):
                    ctx.fail("array_op_depends_on_the_current_database:%s" % op, dict(case, kind=k), "Array(%s) %r %s %r while a project database is current gives %r, the Scalars (own database current) gave %r" % (k, A, op, B, got, ref))
                if same_type and any(not core.close(g, w, abs(w) + 1.0, 1e-12) for g, w in zip(gconv, conv)):
                    ctx.fail("array_conversion_depends_on_the_current_database", dict(case, kind=k), "Array(%s) %r .GetValues(%r) while a project database is current gives %r, expected %r" % (k, A, ub, gconv, conv))
        ctx.cls("operated_under_another_current_database")
        if n:
            ctx.nontrivial(("other_db", ua, ub, op, n))

    # -- conversions whose outcome is not a number: the container kind must not matter either ------------------
    def check_conversion_outcome(self, case):
        """case: outcome=True, source ('simple' | 'unknown'), u, c, v, values.  The Scalar route decides what the
        conversion does (a number, the amount unchanged for the Unknown quantity, an exception for a unit of another
        quantity type); every container kind must do the same, through GetValues(unit) and CreateCopy(unit=)."""
        from barril.units import Array, ObtainQuantity, Scalar

        ctx = self.ctx
        src, u, c, v, vals = case["source"], case["u"], case["c"], case["v"], list(case["values"])
        if src == "unknown" and not self.db.IsValidCategory("Unknown"):
            src = "simple"  # (a database filled without the Unknown quantity)
        q = ObtainQuantity("<unknown>", "Unknown") if src == "unknown" else ObtainQuantity(u, c)

        def outcome(fn):
            try:
                return ("ok", [float(t) for t in fn()])
            except Exception as e:
                if core.tree_frame(e) is None:
                    raise
                return ("raises", None)

        refs = {
            "GetValues": outcome(lambda: [Scalar.CreateWithQuantity(q, x).GetValue(v) for x in vals]),
            "CreateCopy(unit)": outcome(lambda: [Scalar.CreateWithQuantity(q, x).CreateCopy(unit=v).GetValue() for x in vals]),
        }
        ctx.cls("conversion_outcome_%s_%s" % (src, refs["GetValues"][0]))
        for k in KINDS:
            for what, fn in (("GetValues", lambda: list(Array.CreateWithQuantity(q, gen.as_container(k, vals)).GetValues(v))), ("CreateCopy(unit)", lambda: list(Array.CreateWithQuantity(q, gen.as_container(k, vals)).CreateCopy(unit=v).GetValues()))):
                ref = refs[what]
                got = outcome(fn)
                ctx.ev()
                same = got[0] == ref[0] and (got[0] == "raises" or (len(got[1]) == len(ref[1]) and all(core.close(g, w, abs(w) + abs(x), 1e-12) for g, w, x in zip(got[1], ref[1], vals))))
                if not same:
                    ctx.fail("conversion_outcome_depends_on_container:%s:%s:%s" % (what, k, src), dict(case, kind=k), "Array(%s) of %r .%s(%r): %r, the Scalars: %r" % (k, q, what, v, got, ref))
        ctx.nontrivial(("outcome", src, u, v, len(vals)), case if len(ctx.samples) < 12 else None)


def _strategies(ch):
    pool, db, um = ch.pool, ch.db, ch.um
    cats = pool.cats
    all_qts = [qt for qt in sorted(db.quantity_types) if qt in cats and qt != "Unknown" and len(db.quantity_types[qt]) >= 2]
    aff_qts = [qt for qt in all_qts if any(um.offset[u] != 0 for u in um.units(qt))]
    qt_any = st.one_of(*[st.sampled_from(x) for x in (pool.fav, all_qts, aff_qts) if x])

    def vals(n, nonzero=True):
        return st.lists(gen.moderate_values(1e-2, 1e4), min_size=n, max_size=n)

    @st.composite
    def simple_q(draw, qt=None):
        qt = qt or draw(qt_any)
        u = draw(st.sampled_from(um.units(qt)))
        c = draw(st.sampled_from(cats[qt]))
        return {"d": {c: [u, 1]}}, qt

    def dd(d):
        return {"d": {c: list(v) for c, v in d.items()}}

    @st.composite
    def quantity_pair(draw, op):
        mode = draw(st.sampled_from(["simple", "simple", "derived"]))
        if op in "+-":
            if mode == "simple":
                qa, qt = draw(simple_q())
                qb, _ = draw(simple_q(qt))
                return qa, qb
            shape = draw(pool.shape_strategy(max_factors=3, max_exp=2))
            da, _ = draw(pool.instance_strategy(shape))
            dbb, _ = draw(pool.instance_strategy(shape))
            return dd(da), dd(dbb)
        # * / // : any two quantities over scale-only units (derived) or any simple units
        if mode == "simple":
            qt1 = draw(st.one_of(st.sampled_from(pool.fav), st.sampled_from(pool.qts)))
            qt2 = draw(st.one_of(st.sampled_from(pool.fav), st.sampled_from(pool.qts)))
            # (every unit of the type, offsets included: a product of degC and K matches the units like a sum does)
            ua, ub = draw(st.sampled_from(um.units(qt1) if draw(st.booleans()) else pool.units[qt1])), draw(st.sampled_from(um.units(qt2) if draw(st.booleans()) else pool.units[qt2]))
            return {"d": {draw(st.sampled_from(cats[qt1])): [ua, 1]}}, {"d": {draw(st.sampled_from(cats[qt2])): [ub, 1]}}
        sa = draw(pool.shape_strategy(max_factors=2, max_exp=2))
        sb = draw(pool.shape_strategy(max_factors=2, max_exp=2))
        da, _ = draw(pool.instance_strategy(sa))
        dbb, _ = draw(pool.instance_strategy(sb))
        return dd(da), dd(dbb)

    @st.composite
    def op_case(draw):
        op = draw(st.sampled_from(OPS))
        qa, qb = draw(quantity_pair(op))
        n = draw(st.sampled_from([0, 1, 2, 2, 3, 4, 6]))
        return {"qa": qa, "qb": qb, "va": draw(vals(n)), "vb": draw(vals(n)), "op": op}

    @st.composite
    def len_case(draw):
        op = draw(st.sampled_from(OPS))
        qa, qb = draw(quantity_pair(op))
        n = draw(st.integers(0, 5))
        m = draw(st.integers(0, 5).filter(lambda k: k != n))
        return {"qa": qa, "qb": qb, "va": draw(vals(n)), "vb": draw(vals(m)), "op": op}

    @st.composite
    def fs_case(draw):
        qt = draw(qt_any)
        us = um.units(qt)
        n = draw(st.integers(0, 5))
        items = [[draw(gen.finite_values(1e9, 1e-9)), draw(st.sampled_from(us)), draw(st.sampled_from(cats[qt]))] for _ in range(n)]
        return {
            "qt": qt,
            "items": items,
            "unit": draw(st.one_of(st.none(), st.sampled_from(us))) if n else None,
            "category": draw(st.one_of(st.none(), st.sampled_from(cats[qt]))) if n else None,
        }

    @st.composite
    def gv_case(draw):
        qt = draw(qt_any)
        us = um.units(qt)
        return {"qt": qt, "u": draw(st.sampled_from(us)), "v": draw(st.sampled_from(us)), "c": draw(st.sampled_from(cats[qt])), "values": draw(st.lists(gen.finite_values(1e9, 1e-9), min_size=0, max_size=6))}

    @st.composite
    def outcome_case(draw):
        qt = draw(qt_any)
        qt2 = draw(qt_any)
        us = um.units(qt)
        return {
            "outcome": True,
            "source": draw(st.sampled_from(["simple", "simple", "unknown"])),
            "u": draw(st.sampled_from(us)),
            "c": draw(st.sampled_from(cats[qt])),
            "v": draw(st.sampled_from(um.units(qt2))),
            "values": draw(st.lists(gen.finite_values(1e9, 1e-9), min_size=1, max_size=4)),
        }

    @st.composite
    def number_case(draw):
        qa, _qt = draw(simple_q())
        if draw(st.booleans()):
            shape = draw(pool.shape_strategy(max_factors=2, max_exp=2))
            da, _ = draw(pool.instance_strategy(shape))
            qa = dd(da)
        return {
            "number": True,
            "q": qa,
            "values": draw(st.lists(gen.moderate_values(1e-2, 1e4), min_size=0, max_size=4)),
            "k": draw(st.one_of(st.sampled_from([2.0, 10.0, -3.0, 0.5, 7]), gen.moderate_values(1e-1, 1e2))),
            "op": draw(st.sampled_from(OPS)),
            "side": draw(st.sampled_from(["left", "right"])),
        }

    shared = [["m", "cm", "km", "ft"], ["s", "min", "h"], ["K", "degC", "degF"]]

    @st.composite
    def other_db_case(draw):
        us = draw(st.sampled_from(shared))
        op = draw(st.sampled_from(OPS))
        ua = draw(st.sampled_from(us))
        ub = draw(st.sampled_from(us)) if op in "+-" else draw(st.sampled_from(draw(st.sampled_from(shared))))
        n = draw(st.integers(0, 3))
        return {"other_db": True, "ua": ua, "ub": ub, "op": op, "va": draw(vals(n)), "vb": draw(vals(n))}

    families = [
        ("m2", [("length", "m", 2)]),
        ("m2", [("length", "m", 1), ("depth", "m", 1)]),
        ("m3", [("length", "m", 3)]),
        ("m/s", [("length", "m", 1), ("time", "s", -1)]),
        ("kg/m3", [("mass", "kg", 1), ("length", "m", -3)]),
        ("ft2", [("length", "ft", 2)]),
        ("1/s", [("time", "s", -1)]),
    ]
    families = [f for f in families if f[0] in db.unit_to_unit_info and all(db.IsValidCategory(c) for c, _u, _e in f[1])]

    @st.composite
    def sum_outcome_case(draw):
        unit, comp = draw(st.sampled_from(families))
        n = draw(st.integers(1, 3))
        return {"sum_outcome": True, "unit": unit, "comp": [list(t) for t in comp], "va": draw(vals(n)), "vb": draw(vals(n)), "op": draw(st.sampled_from(["+", "-"]))}

    return op_case(), len_case(), fs_case(), gv_case(), outcome_case(), number_case(), other_db_case(), (sum_outcome_case() if families else None)


def _fix(case):
    from collections import OrderedDict

    case = dict(case)
    for k in ("qa", "qb"):
        if k in case:
            case[k] = {"d": OrderedDict((c, list(v)) for c, v in case[k]["d"].items())}
    return case


def run_shard(spec, ctx):
    kind = spec.get("db", "posc")
    db = env.new_db(kind)
    with env.pushed(db):
        ch = Checker(ctx, db)
        if kind != "posc":
            ctx.cls("shard_on_%s_database" % kind)
        op_case, len_case, fs_case, gv_case, outcome_case, number_case, other_db_case, sum_outcome_case = _strategies(ch)
        seed = spec["seed"] * 1000 + spec["shard"]
        n = spec["n"]

        def mk(strategy, fn):
            def make():
                @given(strategy)
                def test(case):
                    core.guarded(ctx, fn, _fix(dict(case, db=kind) if kind != "posc" else case))

                return test

            return make

        core.hunt(ctx, mk(op_case, ch.check_op), seed, n)
        core.hunt(ctx, mk(len_case, ch.check_lengths), seed + 1, max(60, n // 4))
        core.hunt(ctx, mk(fs_case, ch.check_from_scalars), seed + 2, max(100, n // 2))
        core.hunt(ctx, mk(gv_case, ch.check_get_values), seed + 3, max(100, n // 2))
        core.hunt(ctx, mk(outcome_case, ch.check_conversion_outcome), seed + 4, max(100, n // 3))
        core.hunt(ctx, mk(number_case, ch.check_number_operand), seed + 5, max(100, n // 3))
        if kind == "posc":
            core.hunt(ctx, mk(other_db_case, ch.check_other_database_current), seed + 6, max(60, n // 6))
        if sum_outcome_case is not None:
            core.hunt(ctx, mk(sum_outcome_case, ch.check_sum_outcome), seed + 7, max(40, n // 12))


def replay(case, ctx):
    db = env.new_db(case.get("db", "posc"))
    with env.pushed(db):
        ch = Checker(ctx, db)
        case = _fix(case)
        if case.get("sum_outcome"):
            fn = ch.check_sum_outcome
        elif case.get("other_db"):
            fn = ch.check_other_database_current
        elif case.get("number"):
            fn = ch.check_number_operand
        elif case.get("outcome"):
            fn = ch.check_conversion_outcome
        elif "items" in case:
            fn = ch.check_from_scalars
        elif "values" in case:
            fn = ch.check_get_values
        elif len(case["va"]) != len(case["vb"]):
            fn = ch.check_lengths
        else:
            fn = ch.check_op
        return core.replay_guarded(ctx, fn, case)
