"""C11 — FixedArray dimension and Curve length invariants hold along every history."""
import copy
import pickle

from hypothesis import given, strategies as st

from bv import core, env, gen, snapshot
from bv.model import UnitModel

PID = "C11"
RULE = (
    "Hypothesis generates operation sequences (shrunk as one value) run by an interpreter. FixedArray part: "
    "construction attempts through every form (positional (dim, values, unit), (dim, category, values, unit), "
    "(dim, category[, unit=]), (dim, quantity[, values]), CreateWithQuantity with and without dimension=, "
    "CreateEmptyArray, a subclass with class-level _dimension) with dimension 0..6 and list/tuple/ndarray containers "
    "of every length 0..7, then chains of CreateCopy(values / unit / values+unit / category, also on arrays without category), arithmetic with FixedArray / Array / "
    "numbers (equal and different lengths), 2-d numpy operands that broadcast to another number of rows, copy/deepcopy/pickle, ChangingIndex (indexes from the front and from the end; float / Scalar / (value, unit) tuple, "
    "use_value_unit both) and IndexAsScalar. Oracle: an attempt consistent with len(values)==dimension>=2 succeeds, "
    "any other raises ValueError; every FixedArray that ever exists has len(values)==dimension>=2 (dimension as "
    "requested / as the source's); a rejected attempt leaves the source's deep snapshot unchanged; ChangingIndex: "
    "elements j!=i keep their physical amount, element i equals the supplied amount (db float conversion, 1e-12*S), "
    "source unchanged; IndexAsScalar(i, q) equals Convert of element i. Curve part: Curve(image, domain), SetImage, "
    "SetDomain and the property setters with Arrays of arbitrary lengths (flat list/tuple/ndarray, FixedArray, and Arrays of pairs): after every call len(image)==len(domain), "
    "equal lengths are accepted, different lengths raise ValueError and leave both attributes identical. "
    "ChangingIndex / IndexAsScalar called while a project database is current give the result (and, re-expressed in another unit, the numbers) they give while the array's own database is current. Non-trivial = a sequence of >= 3 steps containing a rejected attempt followed by another step; key = the sequence."
)
ASSUMPTIONS = ["indices are generated inside 0..dimension-1", "values are finite floats; units of one quantity type incl. affine ones"]
BUDGET_S = {"quick": 120, "thorough": 1200}
N = {"quick": 500, "thorough": 6000}
SHARDS = {"quick": 6, "thorough": 16}
UNITS = [("m", "length"), ("cm", "length"), ("km", "depth"), ("ft", "depth"), ("s", "time"), ("min", "time"), ("degC", "temperature"), ("K", "temperature"), ("degF", "temperature"), ("kg", "mass"), ("g", "mass")]
_SKEWED = None


def _equal_up_to_nan(r, a):
    """the same array when a NaN element (0/0 of an earlier step) stands against a NaN element: NaN is not equal to
    itself, so == cannot say so"""
    rv, av = [float(t) for t in r.GetValues()], [float(t) for t in a.GetValues()]
    if not any(t != t for t in av):
        return False
    return r.GetQuantity() == a.GetQuantity() and r.dimension == a.dimension and len(rv) == len(av) and all((x == y) or (x != x and y != y) for x, y in zip(rv, av))


KINDS = gen.CONTAINER_KINDS
# FixedArrays also over an integer ndarray (a non-integral amount put at an index is still that amount)
FA_KINDS = KINDS + ("ndarray_int",)


def plan(tier, seed):
    return [{"tier": tier, "seed": seed, "n": N[tier], "part": "fixed" if i % 3 else "curve"} for i in range(SHARDS[tier])]


class Rejected(Exception):
    pass


class FAMachine:
    def __init__(self, ctx, db, case):
        self.ctx = ctx
        self.db = db
        self.case = case
        self.um = _um(db)
        self.pool = []
        self.flags = set()

    def fail(self, key, msg):
        self.ctx.fail(key, self.case, msg)

    # ---------------------------------------------------------------------------------------
    def inv(self, o, want_dim=None, origin=""):
        from barril.units import FixedArray

        self.ctx.ev()
        if not isinstance(o, FixedArray):
            self.fail("result_not_fixedarray:%s" % origin, "%s returned %r" % (origin, type(o)))
        n = len(o.GetValues())
        d = o.dimension
        if n != d or d < 2:
            self.fail("fixedarray_invariant_broken:%s" % origin, "%s produced %r with len(values)=%d, dimension=%r" % (origin, o, n, d))
        if want_dim is not None and d != want_dim:
            self.fail("fixedarray_dimension_changed:%s" % origin, "%s produced dimension %r, expected %r" % (origin, d, want_dim))
        return o

    def add(self, o):
        if len(self.pool) < 10:
            self.pool.append(o)

    def attempt(self, origin, fn, consistent, want_dim=None, sources=()):
        """Run fn: if `consistent` it must succeed and give a FixedArray satisfying the invariant, if it is False it
        must raise ValueError, if it is None either outcome is allowed (but whatever is returned satisfies the
        invariant); sources' snapshots must not change in any case."""
        snaps = [(s, snapshot.value_object(s)) for s in sources]
        self.ctx.ev()
        try:
            r = fn()
        except ValueError as e:
            if consistent is True:
                where = core.tree_frame(e)
                self.fail("consistent_attempt_rejected:%s" % origin, "%s raised ValueError: %s although dimension and length agree" % (origin, e))
            self.flags.add("rejected")
            r = None
        except Exception as e:
            where = core.tree_frame(e)
            if where is None:
                raise
            self.fail("wrong_exception:%s:%s" % (origin, type(e).__name__), "%s raised %s: %s (%s)" % (origin, type(e).__name__, str(e)[:200], "it should have succeeded" if consistent else "ValueError expected"))
            r = None
        else:
            if consistent is False:
                self.fail("inconsistent_attempt_accepted:%s" % origin, "%s returned %r (len(values)=%s, dimension=%s) instead of raising ValueError" % (origin, r, _len(r), getattr(r, "dimension", None)))
            self.inv(r, want_dim, origin)
        for s, sn in snaps:
            if snapshot.value_object(s) != sn:
                self.fail("source_changed:%s" % origin, "%s changed its source %r" % (origin, s))
        return r

    # ---------------------------------------------------------------------------------------
    def construct(self, form, dim, kind, vals, ui):
        from barril.units import FixedArray, ObtainQuantity

        u, c = UNITS[ui % len(UNITS)]
        values = gen.as_container(kind, vals)
        n = len(vals)
        q = ObtainQuantity(u, c)
        if form == "dvu":
            fn, cons, wd = (lambda: FixedArray(dim, values, u)), dim >= 2 and n == dim, dim
        elif form == "dcvu":
            fn, cons, wd = (lambda: FixedArray(dim, c, values, u)), dim >= 2 and n == dim, dim
        elif form == "dc":
            fn, cons, wd = (lambda: FixedArray(dim, c)), dim >= 2, dim
        elif form == "dcu":
            fn, cons, wd = (lambda: FixedArray(dim, c, unit=u)), dim >= 2, dim
        elif form == "dq":
            fn, cons, wd = (lambda: FixedArray(dim, q)), dim >= 2, dim
        elif form == "dqv":
            fn, cons, wd = (lambda: FixedArray(dim, q, values)), dim >= 2 and n == dim, dim
        elif form == "cwq":
            fn, cons, wd = (lambda: FixedArray.CreateWithQuantity(q, values)), n >= 2, n
        elif form == "cwqd":
            fn, cons, wd = (lambda: FixedArray.CreateWithQuantity(q, values, dimension=dim)), dim >= 2 and n == dim, dim
        elif form == "empty":
            fn, cons, wd = (lambda: FixedArray.CreateEmptyArray(dim)), dim >= 2, dim
        elif form == "emptyv":
            fn, cons, wd = (lambda: FixedArray.CreateEmptyArray(dim, values)), dim >= 2 and n == dim, dim
        elif form == "sub3":
            fn, cons, wd = (lambda: _P3()(values, u)), n == 3, 3
        elif form == "sub3cwq":
            fn, cons, wd = (lambda: _P3().CreateWithQuantity(q, values)), n == 3, 3
        else:
            raise core.HarnessError(form)
        r = self.attempt("construct_%s" % form, fn, cons, wd)
        self.ctx.cls("construct_%s" % ("consistent" if cons else "inconsistent"))
        if r is not None:
            self.add(r)

    def pick(self, i):
        if not self.pool:
            from barril.units import FixedArray

            self.pool.append(FixedArray(3, [1.0, 2.0, 3.0], "m", "length"))
        return self.pool[i % len(self.pool)]

    def step(self, op):
        import numpy

        from barril.units import Array, FixedArray, ObtainQuantity, Scalar

        kind = op[0]
        db = self.db
        if kind == "construct":
            _, form, dim, ck, vals, ui = op
            self.construct(form, dim, ck, vals, ui)
            return
        a = self.pick(op[1])
        d = a.dimension
        if kind == "copy_values":
            _, _, ck, vals = op
            values = gen.as_container(ck, vals)
            r = self.attempt("CreateCopy(values)", lambda: a.CreateCopy(values=values), len(vals) == d, d, [a])
            if r is not None:
                self.add(r)
        elif kind == "copy_values_unit":
            _, _, ck, vals, ui, with_cat = op
            q = a.GetQuantity()
            if q.IsDerived() and q.GetUnit() != "":
                return
            if q.GetCategory():
                qt = a.GetQuantityType()
                if qt not in db.quantity_types:
                    return
                us = db.GetUnits(qt)
                kw = {"unit": us[ui % len(us)]}
                if with_cat:
                    kw["category"] = a.GetCategory()
            else:
                # a FixedArray without category (CreateEmptyArray, dimensionless results) accepts any unit
                u, c = UNITS[ui % len(UNITS)]
                kw = {"unit": u}
                if with_cat:
                    kw["category"] = c
                self.flags.add("copy_of_categoryless_array")
                self.ctx.cls("copy_of_categoryless_array")
            values = gen.as_container(ck, vals)
            r = self.attempt("CreateCopy(values,unit)", lambda: a.CreateCopy(values=values, **kw), len(vals) == d, d, [a])
            if r is not None:
                self.add(r)
        elif kind == "copy_unit":
            qt = a.GetQuantityType()
            if a.GetQuantity().IsDerived() or qt not in db.quantity_types:
                return
            us = db.GetUnits(qt)
            v = us[op[2] % len(us)]
            cat = None
            kw = {"unit": v}
            if op[3]:
                kw["category"] = a.GetCategory()
            r = self.attempt("CreateCopy(unit)", lambda: a.CreateCopy(**kw), True, d, [a])
            if r is not None:
                self._same_amounts(a, r, "CreateCopy(unit)")
                self.add(r)
        elif kind == "arith_fixed":
            b = self.pick(op[2])
            sym = op[3]
            same = b.dimension == d
            compatible = sym in "*/" or a.GetQuantityType() == b.GetQuantityType()
            if not compatible:
                return
            if sym == "/" and any(x == 0 for x in b.GetValues()):
                return
            if sym == "/" and a.GetUnit() != b.GetUnit() and any(self.um.offset.get(u, 0) for q in (a.GetQuantity(), b.GetQuantity()) for u, _e in q.GetComposingUnitsJoiningExponents()):
                return  # b re-expressed in a's affine unit (simple or inside a derived quantity) may be exactly zero
            r = self.attempt("FixedArray%sFixedArray" % sym, lambda: _ar(sym, a, b), same, d, [a, b])
            if r is not None:
                self.add(r)
        elif kind == "arith_array":
            _, _, ck, vals, sym = op
            if sym == "/" and any(x == 0 for x in vals):
                return
            other = Array(gen.as_container(ck, vals), a.GetUnit(), a.GetCategory()) if not a.GetQuantity().IsDerived() and a.GetCategory() else Array.CreateWithQuantity(a.GetQuantity(), gen.as_container(ck, vals))
            r = self.attempt("FixedArray%sArray" % sym, lambda: _ar(sym, a, other), len(vals) == d, d, [a, other])
            if r is not None:
                self.add(r)
        elif kind == "arith_number":
            _, _, k, sym, left = op
            if k == 0:
                k = 2.0
            if left and sym == "/" and any(x == 0 for x in a.GetValues()):
                return
            r = self.attempt("FixedArray%snumber" % sym, (lambda: _ar(sym, k, a)) if left else (lambda: _ar(sym, a, k)), True, d, [a])
            if r is not None:
                self.add(r)
        elif kind == "arith_ndarray2d":
            # a numpy operand with an extra axis broadcasts: the result has as many rows as numpy says; whatever comes
            # back is a FixedArray whose dimension is its number of values, or the operation raises ValueError
            _, _, rows, cols_full, sym, left = op
            k = numpy.arange(1.0, 1.0 + rows * (d if cols_full else 1)).reshape((rows, d if cols_full else 1))
            if left and sym == "/" and any(x == 0 for x in a.GetValues()):
                return
            self.ctx.cls("ndarray2d_rows_%s_dimension" % ("eq" if rows == d else "ne"))
            r = self.attempt("FixedArray%sndarray2d" % sym, (lambda: _ar(sym, k, a)) if left else (lambda: _ar(sym, a, k)), None, None, [a])
            if r is not None and len(self.pool) < 10 and all(not hasattr(x, "__len__") for x in r.GetValues()):
                self.add(r)
        elif kind == "other_db_index":
            # the array and the amount belong to this database; the call is made while a project database (same symbols,
            # other factors, fewer units) is current: the same result as while their own database is current
            _, _, idx, ui, x, use = op
            if a.GetQuantity().IsDerived() or a.GetQuantityType() not in ("length", "time", "temperature"):
                return
            us = {"length": ["m", "cm", "km", "ft", "mi"], "time": ["s", "min", "h", "d"], "temperature": ["K", "degC", "degF"]}[a.GetQuantityType()]
            vu = us[ui % len(us)]
            i = idx % d
            amount = Scalar(x, vu)
            ref = a.ChangingIndex(i, amount, use)
            ref_s = a.IndexAsScalar(i, ObtainQuantity(vu, a.GetCategory()))
            global _SKEWED
            if _SKEWED is None:
                _SKEWED = env.skewed_db()
            self.ctx.ev()
            with env.pushed(_SKEWED):
                got = a.ChangingIndex(i, amount, use)
                got_s = a.IndexAsScalar(i, ref_s.GetQuantity())
            self.inv(got, d, "ChangingIndex under another current database")
            # (the result is an object of the operands' database: re-expressed in another unit it gives the same numbers)
            w = [t for t in us if t != got.GetUnit()][0]
            if repr(got) != repr(ref) or repr(got_s) != repr(ref_s) or [float(t) for t in got.GetValues(w)] != [float(t) for t in ref.GetValues(w)] or got_s.GetValue(w) != ref_s.GetValue(w):
                self.fail("changing_index_depends_on_the_current_database", "ChangingIndex(%d, %r, %r) on %r gives %r while its own database is current and %r while a project database is (IndexAsScalar: %r / %r)" % (i, amount, use, a, ref, got, ref_s, got_s))
            self.ctx.cls("index_ops_under_another_current_database")
        elif kind == "pickle":
            r = self.attempt("pickle", lambda: pickle.loads(pickle.dumps(a, op[2] % (pickle.HIGHEST_PROTOCOL + 1))), True, d, [a])
            if r is not None and not (r == a) and not _equal_up_to_nan(r, a):
                self.fail("pickle_not_equal", "pickle round trip of %r gave %r" % (a, r))
        elif kind == "copy":
            r = self.attempt("copy", (lambda: copy.copy(a)) if op[2] else (lambda: copy.deepcopy(a)), True, d, [a])
            if r is not None and not (r == a) and not _equal_up_to_nan(r, a):
                self.fail("copy_not_equal", "copy of %r gave %r" % (a, r))
        elif kind == "changing_index":
            _, _, idx, vk, x, ui, use = op
            if a.GetQuantity().IsDerived() or a.GetQuantityType() not in db.quantity_types:
                return
            qt = a.GetQuantityType()
            us = db.GetUnits(qt)
            vu = us[ui % len(us)]
            i = idx % d
            # every other call addresses the element from the end (-d..-1), as the value sequence allows
            ci = i - d if (idx // d) % 2 else i
            if ci < 0:
                self.ctx.cls("negative_index")
            if vk == "float":
                val, amount_unit = x, a.GetUnit()
            elif vk == "tuple":
                val, amount_unit = (x, vu), vu
            else:
                val, amount_unit = Scalar(x, vu), vu
            r = self.attempt("ChangingIndex(%s)" % vk, lambda: a.ChangingIndex(ci, val, use), True, d, [a])
            if r is None:
                return
            ru = r.GetUnit()
            if r.GetQuantityType() != qt:
                self.fail("changing_index_quantity_type", "ChangingIndex on %r gave quantity type %r" % (a, r.GetQuantityType()))
            if vk != "scalar" or not use:
                if vk != "scalar" and r.GetCategory() != a.GetCategory():
                    self.fail("changing_index_category_changed:%s" % vk, "ChangingIndex(%d, %r) on %r (category %r) returned category %r" % (i, val, a, a.GetCategory(), r.GetCategory()))
            if vk == "scalar" and not use and r.GetUnit() != a.GetUnit():
                self.fail("changing_index_unit_not_kept", "use_value_unit=False but unit went from %r to %r" % (a.GetUnit(), r.GetUnit()))
            if vk == "scalar" and use and r.GetUnit() != vu:
                self.fail("changing_index_unit_not_adopted", "use_value_unit=True with a Scalar in %r gave unit %r" % (vu, r.GetUnit()))
            av, rv = list(a.GetValues()), list(r.GetValues())
            for j in range(d):
                self.ctx.ev()
                if j == i:
                    want = db.Convert(qt, amount_unit, ru, float(x))
                    S = self.um.conv_scale(amount_unit, ru, float(x))
                else:
                    want = db.Convert(qt, a.GetUnit(), ru, float(av[j]))
                    S = self.um.conv_scale(a.GetUnit(), ru, float(av[j]))
                if not core.close(float(rv[j]), want, S, 1e-12):
                    self.fail("changing_index_amount_wrong:%s" % ("target" if j == i else "other"), "ChangingIndex(%d, %r, use_value_unit=%r) on %r returned %r: element %d is %r %s, expected %r" % (ci, val, use, a, r, j, rv[j], ru, want))
            self.flags.add("changing_index")
            self.add(r)
        elif kind == "index_as_scalar":
            _, _, idx, ui, withq = op
            if a.GetQuantity().IsDerived() or a.GetQuantityType() not in db.quantity_types:
                return
            qt = a.GetQuantityType()
            us = db.GetUnits(qt)
            vu = us[ui % len(us)]
            i = idx % d
            ci = i - d if (idx // d) % 2 else i
            snap = snapshot.value_object(a)
            self.ctx.ev()
            s = a.IndexAsScalar(ci, ObtainQuantity(vu, a.GetCategory())) if withq else a.IndexAsScalar(ci)
            tu = vu if withq else a.GetUnit()
            want = db.Convert(qt, a.GetUnit(), tu, float(list(a.GetValues())[i]))
            both_nan = want != want and s.GetValue() != s.GetValue()  # (an infinite element: inf through an affine formula)
            if not isinstance(s, Scalar) or s.GetUnit() != tu or not (both_nan or core.close(s.GetValue(), want, self.um.conv_scale(a.GetUnit(), tu, float(list(a.GetValues())[i])), 1e-12)):
                self.fail("index_as_scalar_wrong", "IndexAsScalar(%d) of %r in %r gave %r, expected %r %s" % (ci, a, tu, s, want, tu))
            if snapshot.value_object(a) != snap:
                self.fail("source_changed:IndexAsScalar", "IndexAsScalar changed %r" % a)
        else:
            raise core.HarnessError("unknown op %r" % (op,))

    def _same_amounts(self, a, r, origin):
        qt = a.GetQuantityType()
        for x, y in zip(a.GetValues(), r.GetValues()):
            want = self.db.Convert(qt, a.GetUnit(), r.GetUnit(), float(x))
            if not core.close(float(y), want, self.um.conv_scale(a.GetUnit(), r.GetUnit(), float(x)), 1e-12):
                self.fail("amount_changed:%s" % origin, "%s of %r gave %r" % (origin, a, r))

    def run(self, ops):
        for k, op in enumerate(ops):
            was_rejected = "rejected" in self.flags
            self.step(op)
            if was_rejected:
                self.flags.add("step_after_rejection")
            for o in self.pool:
                self.inv(o, None, "pool")
            self.ctx.cls("op_" + op[0])
        self.ctx.cls("sequences")
        if len(ops) >= 3 and "step_after_rejection" in self.flags:
            self.ctx.nontrivial(("fa", repr(ops)), {"ops": ops} if len(self.ctx.samples) < 4 else None)


def _len(r):
    try:
        return len(r.GetValues())
    except Exception:
        return None


def _ar(sym, a, b):
    if sym == "+":
        return a + b
    if sym == "-":
        return a - b
    if sym == "*":
        return a * b
    return a / b


_CACHE = {}


def _P3():
    if "P3" not in _CACHE:
        from barril.units import FixedArray

        class P3(FixedArray):
            _dimension = 3

            def __init__(self, *a, **k):
                FixedArray.__init__(self, 3, *a, **k)

        _CACHE["P3"] = P3
    return _CACHE["P3"]


def _um(db):
    if _CACHE.get("um_db") is not db:
        _CACHE["um"] = UnitModel(db)
        _CACHE["um_db"] = db
    return _CACHE["um"]


# =============================================================================================
# Curve


class CurveMachine:
    def __init__(self, ctx, case):
        self.ctx = ctx
        self.case = case
        self.flags = set()

    def fail(self, key, msg):
        self.ctx.fail(key, self.case, msg)

    def arr(self, spec):
        from barril.units import Array, FixedArray

        kind, vals, ui, fixed = spec[:4]
        u, c = UNITS[ui % len(UNITS)]
        if len(spec) > 4 and spec[4] and vals:
            # an Array whose values are pairs (list or tuple of tuples / 2-d ndarray): its length is the number of pairs
            import numpy

            pairs = [(x, x + 1.0) for x in vals]
            cont = {"list": list(pairs), "tuple": tuple(pairs), "ndarray": numpy.array(pairs)}[kind]
            return Array(cont, u, c)
        if fixed and len(vals) >= 2:
            return FixedArray(len(vals), gen.as_container(kind, vals), u, c)
        return Array(gen.as_container(kind, vals), u, c)

    def run(self, init, ops):
        from barril.curve.curve import Curve

        ctx = self.ctx
        img, dom = self.arr(init[0]), self.arr(init[1])
        ctx.ev()
        try:
            cv = Curve(img, dom)
        except ValueError:
            if len(img) == len(dom):
                self.fail("curve_ctor_rejects_equal_lengths", "Curve(%r, %r) raised ValueError" % (img, dom))
            ctx.cls("curve_ctor_rejected")
            self.flags.add("rejected")
            a = self.arr(("list", [1.0, 2.0], 0, False, False))
            cv = Curve(a, self.arr(("tuple", [0.0, 1.0], 4, False, False)))
        else:
            if len(img) != len(dom):
                self.fail("curve_ctor_accepts_different_lengths", "Curve(%r, %r) was accepted" % (img, dom))
        for k, (what, spec) in enumerate(ops):
            new = self.arr(spec)
            before = (cv.GetImage(), cv.GetDomain())
            n_img, n_dom = len(before[0]), len(before[1])
            is_image = what.endswith("image") or what == "set_values"
            ok_expected = len(new) == (n_dom if is_image else n_img)
            ctx.ev()
            try:
                if what == "read":
                    # read-only operations never touch the lengths
                    n0 = len(cv.GetImage())
                    repr(cv)
                    if n0:
                        cv[0], cv[-1], cv[0:n0]
                    if len(cv.GetImage()) != n_img or len(cv.GetDomain()) != n_dom or cv.GetValues() is not before[0]:
                        self.fail("curve_changed_by_read", "reading the curve changed it")
                    continue
                if what == "set_values":
                    cv.SetValues(new)  # deprecated spelling of SetImage
                elif what == "set_image":
                    cv.SetImage(new)
                elif what == "set_domain":
                    cv.SetDomain(new)
                elif what == "prop_image":
                    cv.image = new
                else:
                    cv.domain = new
            except ValueError:
                if ok_expected:
                    self.fail("curve_rejects_equal_lengths:%s" % what, "%s(%r) raised ValueError although the lengths agree (%d)" % (what, new, len(new)))
                if cv.GetImage() is not before[0] or cv.GetDomain() is not before[1]:
                    self.fail("curve_changed_by_rejected_call:%s" % what, "rejected %s(%r) changed the curve: image %r -> %r, domain %r -> %r" % (what, new, before[0], cv.GetImage(), before[1], cv.GetDomain()))
                self.flags.add("rejected")
                ctx.cls("curve_call_rejected")
            else:
                if not ok_expected:
                    self.fail("curve_accepts_different_lengths:%s" % what, "%s(%r) accepted: image has %d, domain %d elements" % (what, new, len(cv.GetImage()), len(cv.GetDomain())))
                if (cv.GetImage() if is_image else cv.GetDomain()) is not new:
                    self.fail("curve_setter_did_not_store:%s" % what, "%s(%r) accepted but the curve holds %r" % (what, new, cv.GetImage() if is_image else cv.GetDomain()))
                ctx.cls("curve_call_accepted")
                if "rejected" in self.flags:
                    self.flags.add("accepted_after_rejection")
            if len(cv.GetImage()) != len(cv.GetDomain()) or cv.GetLength() != len(cv.GetDomain()):
                self.fail("curve_lengths_differ", "after %s(%r): image %d, domain %d, GetLength %d" % (what, new, len(cv.GetImage()), len(cv.GetDomain()), cv.GetLength()))
        ctx.cls("curve_sequences")
        if len(ops) >= 2 and "rejected" in self.flags:
            ctx.nontrivial(("curve", repr(init), repr(ops)), {"init": init, "ops": ops} if len(ctx.samples) < 8 else None)


# =============================================================================================


def fa_ops():
    vals = st.lists(st.one_of(st.sampled_from([1.0, 2.0, 0.5, -3.0, 10.0]), gen.moderate_values(1e-2, 1e3)), min_size=0, max_size=7)
    kinds = st.sampled_from(FA_KINDS)
    i = st.integers(0, 30)
    forms = st.sampled_from(["dvu", "dcvu", "dc", "dcu", "dq", "dqv", "cwq", "cwqd", "empty", "emptyv", "sub3", "sub3cwq"])
    dims = st.integers(0, 6)

    @st.composite
    def construct(draw):
        dim = draw(dims)
        v = draw(st.one_of(vals, st.lists(gen.moderate_values(1e-2, 1e3), min_size=dim, max_size=dim)))
        return ("construct", draw(forms), dim, draw(kinds), v, draw(i))

    sym = st.sampled_from(["+", "-", "*", "/"])
    return construct(), st.one_of(
        construct(),
        st.tuples(st.just("copy_values"), i, kinds, vals),
        st.tuples(st.just("copy_unit"), i, i, st.booleans()),
        st.tuples(st.just("copy_values_unit"), i, kinds, vals, i, st.booleans()),
        st.tuples(st.just("arith_fixed"), i, i, sym),
        st.tuples(st.just("arith_array"), i, kinds, vals, sym),
        st.tuples(st.just("arith_number"), i, st.one_of(st.integers(-5, 5), gen.moderate_values()), sym, st.booleans()),
        st.tuples(st.just("arith_ndarray2d"), i, st.integers(1, 4), st.booleans(), sym, st.booleans()),
        st.tuples(st.just("pickle"), i, st.integers(0, 5)),
        st.tuples(st.just("copy"), i, st.booleans()),
        st.tuples(st.just("changing_index"), i, i, st.sampled_from(["float", "tuple", "scalar"]), gen.moderate_values(1e-2, 1e3), i, st.booleans()),
        st.tuples(st.just("changing_index"), i, i, st.sampled_from(["float", "tuple", "scalar"]), gen.moderate_values(1e-2, 1e3), i, st.booleans()),
        st.tuples(st.just("index_as_scalar"), i, i, i, st.booleans()),
        st.tuples(st.just("other_db_index"), i, i, i, gen.moderate_values(1e-2, 1e3), st.booleans()),
    )


def curve_case():
    vals = st.lists(st.sampled_from([1.0, 2.0, 0.5, -3.0, 10.0]), min_size=0, max_size=5)
    arr = st.tuples(st.sampled_from(KINDS), vals, st.integers(0, 10), st.booleans(), st.sampled_from([False, False, False, True]))
    op = st.tuples(st.sampled_from(["set_image", "set_domain", "prop_image", "prop_domain", "set_image", "set_domain", "set_values", "read"]), arr)
    return st.tuples(st.tuples(arr, arr), st.lists(op, min_size=1, max_size=10))


_DB = {}


def _db():
    db = _DB.get("db")
    if db is None or snapshot.registry_light(db) != _DB["fp"]:
        db = _DB["db"] = env.new_db("posc")
        _DB["fp"] = snapshot.registry_light(db)
    return db


def _tup(x):
    if isinstance(x, list):
        return [_tup(v) for v in x]
    if isinstance(x, tuple):
        return tuple(_tup(v) for v in x)
    return x


def run_fa(ctx, ops):
    db = _db()
    with env.pushed(db):
        FAMachine(ctx, db, {"ops": ops}).run(ops)


def run_curve(ctx, init, ops):
    db = _db()
    with env.pushed(db):
        CurveMachine(ctx, {"init": init, "ops": ops}).run(init, ops)


def run_shard(spec, ctx):
    seed = spec["seed"] * 1000 + spec["shard"]
    if spec["part"] == "fixed":
        first, anyop = fa_ops()
        seqs = st.tuples(st.lists(first, min_size=1, max_size=4), st.lists(anyop, min_size=1, max_size=18)).map(lambda t: list(t[0]) + list(t[1]))

        def mk():
            @given(seqs)
            def test(ops):
                core.guarded(ctx, lambda c: run_fa(ctx, c["ops"]), {"ops": [tuple(o) for o in ops]})

            return test

        core.hunt(ctx, mk, seed, spec["n"])
    else:

        def mk():
            @given(curve_case())
            def test(c):
                init, ops = c
                core.guarded(ctx, lambda cc: run_curve(ctx, cc["init"], cc["ops"]), {"init": init, "ops": ops})

            return test

        core.hunt(ctx, mk, seed, spec["n"] * 2)


def replay(case, ctx):
    if "init" in case:
        return core.replay_guarded(ctx, lambda c: run_curve(ctx, c["init"], c["ops"]), case)
    return core.replay_guarded(ctx, lambda c: run_fa(ctx, [tuple(o) for o in c["ops"]]), case)
