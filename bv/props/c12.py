"""C12 — limit validation depends only on the physical amount."""
import math

from hypothesis import given, strategies as st

from bv import core, env, gen, snapshot

PID = "C12"
RULE = (
    "Hypothesis generates, on a scratch POSC database, a category registration (quantity type incl. the affine "
    "temperature/pressure types; min only / max only / both / none; inclusive or exclusive; default unit any unit of the "
    "type or omitted; default value given or derived; also from_category children with partial overrides) and then "
    "values (exact boundaries, boundaries +-1 ulp, NaN, +-inf, random) written in any unit of the type, for Scalar, "
    "FractionScalar, Array over list/tuple/ndarray float64 and float32 (lengths 0..8, NaN sprinkled), tuple-of-tuples and list-of-tuples. "
    "Oracle (independent limit predicate on the database's own float conversion to the default unit): IsValid() <=> "
    "every non-NaN element (flat Array) / the value (Scalar, NaN invalid) satisfies the limits; CheckValidity raises "
    "QuantityValidationError whose (operator, limit) is a limit that a reported element really violates; "
    "CheckValueForCategory agrees; verdict invariant under element permutation, container kind, repeated calls, "
    "CreateCopy into another category (no stale cached verdict) and - for amounts not within 1e-9 of a boundary - "
    "re-expression in another unit; after the same category is registered again (override) with another limit "
    "configuration the verdicts follow the definition in force. Registration oracle: an accepted registration has default_unit in units(type), a "
    "default value that satisfies the limits, Scalar(category).IsValid(); an inconsistent one raises and leaves the "
    "registry unchanged. Results of + and - between objects of the category written in different units (Scalar, list, ndarray) are validated by their amount like objects that were written down. After a unit was used without a category and its default category is re-registered with limits, the category-less forms (Scalar(v,u), Scalar((v,u)), Array, FractionScalar) are validated by the definition in force. The verdict belongs to the object: it is the same while a project database that has a category of the same name with contradicting limits is current. Non-trivial = limits present and a value within 3 ulp of a boundary, or an array with a NaN "
    "and an out-of-range element; key = (limit config, unit, container, verdict)."
)
ASSUMPTIONS = ["an infinite value whose float conversion to the default unit is NaN (0*inf in the POSC formula) satisfies no limit, exactly as the database conversion says", "NaN inside tuple-of-tuples containers is not asserted (unspecified by the statement)", "the reference uses the same db float conversion as the statement names, so boundary cases are compared exactly"]
BUDGET_S = {"quick": 120, "thorough": 1200}
N = {"quick": 900, "thorough": 12000}
SHARDS = {"quick": 6, "thorough": 16}
QTS = ["length", "temperature", "pressure", "time", "mass", "volume", "dimensionless"]
KINDS = gen.CONTAINER_KINDS
NAN = float("nan")


def plan(tier, seed):
    return [{"tier": tier, "seed": seed, "n": N[tier]} for _ in range(SHARDS[tier])]


def satisfies(v, cfg):
    """independent limit predicate (v already in the default unit)"""
    mn, mx = cfg["min"], cfg["max"]
    if mn is None and mx is None:
        return True, None
    if mn is not None:
        if cfg["min_excl"]:
            if not v > mn:
                return False, (">", mn)
        elif not v >= mn:
            return False, (">=", mn)
    if mx is not None:
        if cfg["max_excl"]:
            if not v < mx:
                return False, ("<", mx)
        elif not v <= mx:
            return False, ("<=", mx)
    return True, None


class Checker:
    def __init__(self, ctx, db):
        self.ctx = ctx
        self.db = db
        self.counter = 0

    def fresh_name(self):
        self.counter += 1
        return "bv c12 %d" % self.counter

    # -- registration ---------------------------------------------------------------------------
    def register(self, cfg, case, name=None, from_category=None, override=False):
        """AddCategory with the generated arguments.  Returns the effective config (dict) if the
        registration was accepted, None if it raised."""
        ctx, db = self.ctx, self.db
        name = name or self.fresh_name()
        kw = {}
        if cfg.get("default_unit") is not None:
            kw["default_unit"] = cfg["default_unit"]
        if cfg.get("default_value") is not None:
            kw["default_value"] = cfg["default_value"]
        if cfg.get("min") is not None:
            kw["min_value"] = cfg["min"]
        if cfg.get("max") is not None:
            kw["max_value"] = cfg["max"]
        if cfg.get("min_excl"):
            kw["is_min_exclusive"] = True
        if cfg.get("max_excl"):
            kw["is_max_exclusive"] = True
        if cfg.get("valid_units"):
            kw["valid_units"] = list(cfg["valid_units"])
        if from_category:
            kw["from_category"] = from_category
        else:
            kw["quantity_type"] = cfg["qt"]
        if override:
            kw["override"] = True
        existed = override and db.IsValidCategory(name)
        before = snapshot.registry_light(db)
        ctx.ev()
        try:
            info = db.AddCategory(name, **kw)
        except Exception as e:
            if core.tree_frame(e) is None and not isinstance(e, (AssertionError, ValueError, RuntimeError)):
                raise
            ctx.cls("registration_rejected_%s" % type(e).__name__)
            if snapshot.registry_light(db) != before or (db.IsValidCategory(name) and not existed):
                ctx.fail("rejected_registration_left_traces", case, "AddCategory(%r, %r) raised %s but the registry changed" % (name, kw, type(e).__name__))
            return None
        ctx.cls("registration_accepted")
        qt = info.quantity_type
        eff = {"name": name, "qt": qt, "default_unit": info.default_unit, "default_value": info.default_value, "min": info.min_value, "max": info.max_value, "min_excl": info.is_min_exclusive, "max_excl": info.is_max_exclusive}
        units = db.GetUnits(qt)
        if info.default_unit not in units:
            ctx.fail("accepted_default_unit_not_in_type", case, "AddCategory(%r) accepted default unit %r which is not a unit of %r" % (kw, info.default_unit, qt))
        if info.valid_units is not None and any(u not in units for u in info.valid_units):
            ctx.fail("accepted_valid_unit_not_in_type", case, "AddCategory(%r) accepted valid units %r" % (kw, info.valid_units))
        ok, why = satisfies(info.default_value, eff)
        if not ok:
            ctx.fail("accepted_default_value_violates_limits", case, "AddCategory(%r) accepted default value %r which violates %r" % (kw, info.default_value, why))
        from barril.units import Scalar

        s = Scalar(name)
        ctx.ev()
        if not s.IsValid():
            ctx.fail("default_scalar_invalid", case, "Scalar(%r) = %r is not valid for its own category (%r)" % (name, s, eff))
        if info.min_value is not None and info.max_value is not None and info.max_value < info.min_value:
            ctx.fail("accepted_max_below_min", case, "AddCategory(%r) accepted max < min" % (kw,))
        return eff

    # -- validation -------------------------------------------------------------------------------
    def amount(self, cfg, u, x):
        d = cfg["default_unit"]
        if u == d:
            return x
        return self.db.Convert(cfg["qt"], u, d, x)

    def near_boundary(self, cfg, v):
        for b in (cfg["min"], cfg["max"]):
            if b is not None and math.isfinite(v) and abs(v - b) <= 1e-9 * (abs(v) + abs(b)) + 1e-300:
                return True
        return False

    def check_scalar_like(self, cfg, case, cls, u, x):
        from barril.basic.fraction import FractionValue
        from barril.units import FractionScalar, Scalar
        from barril.units.exceptions import QuantityValidationError

        ctx = self.ctx
        name = cfg["name"]
        if cls == "Scalar":
            o = Scalar(x, u, name)
        else:
            o = FractionScalar(FractionValue(number=x), u, name)
        v = self.amount(cfg, u, x)
        want, why = satisfies(v, cfg)
        ctx.ev()
        got = o.IsValid()
        if got != want:
            ctx.fail("verdict_wrong:%s:%s" % (cls, "accepts_invalid" if got else "rejects_valid"), case, "%r (amount %r %s) IsValid()=%r, limits %r say %r" % (o, v, cfg["default_unit"], got, _lim(cfg), want))
        if o.IsValid() != got:
            ctx.fail("verdict_not_repeatable:%s" % cls, case, "%r gives different verdicts on repeated calls" % (o,))
        ctx.ev()
        try:
            o.CheckValidity()
            raised = None
        except QuantityValidationError as e:
            raised = e
        if (raised is None) != want:
            ctx.fail("check_validity_disagrees_with_isvalid:%s" % cls, case, "%r: CheckValidity %s, expected verdict %r" % (o, "raised" if raised else "passed", want))
        if raised is not None and why is not None:
            if raised.operator != why[0] or raised.limit_value != why[1] or not _same(raised.value, v):
                ctx.fail("reported_limit_wrong:%s" % cls, case, "%r: reported value %r %s %r, the violated limit is %r %r for amount %r" % (o, raised.value, raised.operator, raised.limit_value, why[0], why[1], v))
        # the verdict belongs to the object (the definition it was created under), not to whichever database is current
        # when it is asked: a project database with a category of the same name and other limits is made current
        if cfg.get("twin_in_other_db"):
            o2 = Scalar(x, u, name) if cls == "Scalar" else FractionScalar(FractionValue(number=x), u, name)
            with env.pushed(cfg["twin_in_other_db"]):
                got_b = o2.IsValid()
                try:
                    o2.CheckValidity()
                    raised_b = False
                except QuantityValidationError:
                    raised_b = True
            ctx.ev()
            if got_b != want or raised_b == want:
                ctx.fail("verdict_depends_on_the_current_database:%s" % cls, case, "%r: IsValid()=%r / CheckValidity %s while a project database (category of the same name, other limits) is current; its own limits %r say %r" % (o2, got_b, "raised" if raised_b else "passed", _lim(cfg), want))
            ctx.cls("verdict_asked_under_another_current_database")
        if cls == "Scalar":
            ctx.ev()
            try:
                self.db.CheckValueForCategory(name, x, u)
                ok2 = True
            except QuantityValidationError:
                ok2 = False
            if ok2 != want:
                ctx.fail("check_value_for_category_disagrees", case, "CheckValueForCategory(%r, %r, %r) says %r, expected %r" % (name, x, u, ok2, want))
        return want, v

    def check_array(self, cfg, case, u, xs, other=None):
        from barril.units import Array
        from barril.units.exceptions import QuantityValidationError

        ctx = self.ctx
        name = cfg["name"]
        amounts = [self.amount(cfg, u, x) for x in xs]
        verdicts = [(satisfies(v, cfg)) for v in amounts]
        # NaN *elements* are skipped; an infinite element whose float conversion is NaN satisfies no limit
        bad = [(v, why) for x, v, (ok, why) in zip(xs, amounts, verdicts) if not ok and not math.isnan(x)]
        want = not bad
        perms = [list(xs), list(reversed(xs)), sorted(xs, key=lambda t: (math.isnan(t), t)), list(xs[1:]) + list(xs[:1])]
        for pi, p in enumerate(perms):
            for k in KINDS:
                a = Array(gen.as_container(k, p), u, name)
                ctx.ev()
                got = a.IsValid()
                if got != want:
                    ctx.fail("verdict_wrong:Array:%s" % ("accepts_invalid" if got else "rejects_valid"), dict(case, kind=k, perm=pi), "Array(%s %r, %r, %r).IsValid()=%r; amounts %r in %s against %r say %r" % (k, p, u, name, got, amounts, cfg["default_unit"], _lim(cfg), want))
                if a.IsValid() != got:
                    ctx.fail("verdict_not_repeatable:Array", dict(case, kind=k), "repeated IsValid differs")
                try:
                    a.CheckValidity()
                    raised = None
                except QuantityValidationError as e:
                    raised = e
                if (raised is None) != want:
                    ctx.fail("check_validity_disagrees_with_isvalid:Array", dict(case, kind=k, perm=pi), "Array(%s %r): CheckValidity %s, verdict should be %r" % (k, p, "raised" if raised else "passed", want))
                if raised is not None and bad:
                    if not any(raised.operator == why[0] and raised.limit_value == why[1] and _same(raised.value, v) for v, why in bad):
                        ctx.fail("reported_limit_wrong:Array", dict(case, kind=k, perm=pi), "Array(%s %r): reported %r %s %r; really violated: %r" % (k, p, raised.value, raised.operator, raised.limit_value, bad[:3]))
                # second call must raise the same again (cached exception)
                if raised is not None:
                    try:
                        a.CheckValidity()
                        ctx.fail("cached_verdict_lost:Array", dict(case, kind=k), "second CheckValidity passed after the first raised")
                    except QuantityValidationError:
                        pass
                # a copy into another category must be judged by that category (no stale cached verdict)
                if other is not None and pi == 0:
                    c2 = a.CreateCopy(unit=u, category=other["name"])
                    want2 = all(satisfies(self.amount(other, u, x), other)[0] for x in p if not math.isnan(x))
                    ctx.ev()
                    if c2.IsValid() != want2:
                        ctx.fail("copy_to_other_category_keeps_stale_verdict", dict(case, kind=k), "Array(%s %r,%r,%r) validated, then CreateCopy(category=%r).IsValid()=%r, limits %r say %r" % (k, p, u, name, other["name"], c2.IsValid(), _lim(other), want2))
                    c3 = a.CreateCopy(values=gen.as_container(k, [other["default_value"]]), unit=other["default_unit"], category=other["name"])
                    if not c3.IsValid():
                        ctx.fail("copy_with_new_values_keeps_stale_verdict", dict(case, kind=k), "copy holding the other category's default value is reported invalid")
        # a float32 ndarray holds other numbers (the float32 roundings): the verdict is the one of exactly those numbers,
        # decided in double precision like for every other container
        import numpy

        p32 = numpy.array(list(xs), dtype=numpy.float32)
        x32 = [float(t) for t in p32]
        if all(math.isfinite(t) or math.isnan(t) for t in x32) or True:
            am32 = [self.amount(cfg, u, t) for t in x32]
            bad32 = [(v, why) for t, v, (ok, why) in zip(x32, am32, [satisfies(v, cfg) for v in am32]) if not ok and not math.isnan(t)]
            want32 = not bad32
            a32 = Array(p32, u, name)
            ctx.ev()
            got32 = a32.IsValid()
            if got32 != want32:
                ctx.fail("verdict_wrong:Array:float32:%s" % ("accepts_invalid" if got32 else "rejects_valid"), dict(case, kind="ndarray_float32"), "Array(float32 %r, %r, %r).IsValid()=%r; amounts %r in %s against %r say %r" % (x32, u, name, got32, am32, cfg["default_unit"], _lim(cfg), want32))
            try:
                a32.CheckValidity()
            except QuantityValidationError as e:
                if bad32 and not any(e.operator == why[0] and e.limit_value == why[1] and _same(float(e.value), v) for v, why in bad32):
                    ctx.fail("reported_limit_wrong:Array:float32", dict(case, kind="ndarray_float32"), "Array(float32 %r): reported %r %s %r; really violated: %r" % (x32, e.value, e.operator, e.limit_value, bad32[:3]))
            ctx.cls("array_float32_checked")
        has_nan = any(math.isnan(x) for x in xs)
        if (has_nan and bad) or any(self.near_boundary(cfg, v) for v in amounts):
            ctx.nontrivial(("array", _lim(cfg), u, len(xs), want), dict(case, amounts=amounts, verdict=want) if len(ctx.samples) < 8 else None)
        ctx.cls("array_valid" if want else "array_invalid")
        if has_nan:
            ctx.cls("array_with_nan")
        return want

    def check_nested(self, cfg, case, u, xs):
        from barril.units import Array

        ctx = self.ctx
        xs = [x for x in xs if not math.isnan(x)]
        if len(xs) < 2:
            return
        rows = [tuple(xs[i : i + 2]) for i in range(0, len(xs) - 1, 2)]
        amounts = [self.amount(cfg, u, x) for r in rows for x in r]
        want = all(satisfies(v, cfg)[0] for v in amounts)
        for cont in (list, tuple):
            a = Array(cont(rows), u, cfg["name"])
            ctx.ev()
            got = a.IsValid()
            if got != want:
                ctx.fail("verdict_wrong:nested:%s" % ("accepts_invalid" if got else "rejects_valid"), dict(case, rows=rows), "Array(%s of tuples %r, %r).IsValid()=%r, expected %r" % (cont.__name__, rows, u, got, want))
        ctx.cls("nested_checked")

    def check(self, case):
        """case: cfg (requested registration), child (optional overrides), unit index, values, other cfg"""
        ctx, db = self.ctx, self.db
        cfg = self.register(case["cfg"], case)
        if cfg is None:
            return
        if case.get("child") is not None:
            child_req = dict(case["child"], qt=cfg["qt"])
            ch = self.register(child_req, case, from_category=cfg["name"])
            if ch is not None:
                ctx.cls("child_registered")
                cfg = ch
        other = None
        if case.get("other") is not None:
            other = self.register(dict(case["other"], qt=cfg["qt"]), case)
        if cfg["qt"] == "length" and case["ui"] % 3 == 0:
            # a project database that knows a category of this very name, with limits that contradict these
            twin = _ST.get("twin")
            if twin is None:
                twin = _ST["twin"] = env.skewed_db()
            try:
                twin.AddCategory(cfg["name"], "length", override=True, min_value=1e9, max_value=2e9, default_value=1.5e9, default_unit="m")
                cfg = dict(cfg, twin_in_other_db=twin)
            except Exception:
                pass
        units = db.GetUnits(cfg["qt"])
        u = units[case["ui"] % len(units)]
        w = units[case["wi"] % len(units)]
        xs = [self.value_from(cfg, u, spec) for spec in case["values"]]
        lim = cfg["min"] is not None or cfg["max"] is not None
        for x in xs[:4]:
            for cls in ("Scalar", "FractionScalar"):
                want, v = self.check_scalar_like(cfg, case, cls, u, x)
                if lim and self.near_boundary(cfg, v):
                    ctx.nontrivial((cls, _lim(cfg), u, want), dict(case, x=x, amount=v, verdict=want) if len(ctx.samples) < 6 else None)
                # unit re-expression: the same amount written in unit w gets the same verdict
                if w != u and math.isfinite(x) and not self.near_boundary(cfg, v):
                    y = db.Convert(cfg["qt"], u, w, x)
                    v2 = self.amount(cfg, w, y)
                    if math.isfinite(y) and not self.near_boundary(cfg, v2) and satisfies(v2, cfg)[0] == want:
                        from barril.units import Scalar

                        ctx.ev()
                        if Scalar(y, w, cfg["name"]).IsValid() != want:
                            ctx.fail("verdict_depends_on_unit", case, "%r %s is %s but the same amount %r %s is not" % (x, u, "valid" if want else "invalid", y, w))
        self.check_array(cfg, case, u, xs, other)
        self.check_nested(cfg, case, u, xs)
        self.check_results_of_arithmetic(cfg, case, u, w, xs)
        # the same category is registered again (override) with the other configuration, after quantities and verdicts of
        # the old definition exist: validation follows the definition in force
        if case.get("other") is not None:
            redefined = self.register(dict(case["other"], qt=cfg["qt"]), case, name=cfg["name"], override=True)
            if redefined is not None:
                ctx.cls("category_redefined_with_override")
                for x in xs[:3]:
                    for cls in ("Scalar", "FractionScalar"):
                        self.check_scalar_like(redefined, dict(case, phase="after override"), cls, u, x)
                self.check_array(redefined, dict(case, phase="after override"), u, xs[:4])
        ctx.cls("limits_%s" % ("none" if not lim else ("both" if cfg["min"] is not None and cfg["max"] is not None else ("min" if cfg["min"] is not None else "max"))))
        if cfg["min_excl"] or cfg["max_excl"]:
            ctx.cls("exclusive_limit")
        if u != cfg["default_unit"]:
            ctx.cls("unit_differs_from_default")

    def check_category_less_forms(self, case):
        """case: less=True, u, cfg, values.  The unit's default category is re-registered (override) with limits after
        the unit was used without a category; objects then created *without* a category are objects of that category
        and are validated by the definition in force."""
        import numpy

        from barril.basic.fraction import FractionValue
        from barril.units import Array, FractionScalar, Scalar

        ctx, db = self.ctx, self.db
        u = case["u"]
        c = db.GetDefaultCategory(u)
        qt = db.GetCategoryQuantityType(c)
        Scalar(3.0, u), Array([1.0, 2.0], u)  # used before the category is redefined
        cfg = self.register(dict(case["cfg"], qt=qt), case, name=c, override=True)
        if cfg is None:
            return
        ctx.cls("default_category_redefined_after_category_less_use")
        for spec in case["values"][:4]:
            x = self.value_from(cfg, u, spec)
            v = self.amount(cfg, u, x)
            if not math.isfinite(x) or self.near_boundary(cfg, v):
                continue
            want, _why = satisfies(v, cfg)
            for what, fn in (
                ("Scalar(v,u)", lambda: Scalar(x, u).IsValid()),
                ("Scalar((v,u))", lambda: Scalar((x, u)).IsValid()),
                ("Array([v],u)", lambda: Array([x], u).IsValid()),
                ("Array(ndarray,u)", lambda: Array(numpy.array([x]), u).IsValid()),
                ("FractionScalar(v,u)", lambda: FractionScalar(FractionValue(number=x), u).IsValid()),
                ("Scalar(v,u,c)", lambda: Scalar(x, u, c).IsValid()),
            ):
                ctx.ev()
                got = fn()
                if got != want:
                    ctx.fail("verdict_wrong:category_less_form_after_override:%s" % ("accepts_invalid" if got else "rejects_valid"), dict(case, x=x), "%s with %r %s after %r was re-registered with limits %r: IsValid()=%r, the limits say %r" % (what, x, u, c, _lim(cfg), got, want))
        ctx.nontrivial(("category_less", u, _lim(cfg)), case if len(ctx.samples) < 8 else None)

    def check_results_of_arithmetic(self, cfg, case, u, w, xs):
        """an object of the category that came out of + or - (operands in different units) is validated like one that
        was written down: by its amount in the category's default unit"""
        import numpy

        from barril.units import Array, Scalar

        ctx, db = self.ctx, self.db
        name = cfg["name"]
        fin = [x for x in xs if math.isfinite(x)][:2]
        if not fin or w == u:
            return
        for x in fin:
            y = db.Convert(cfg["qt"], u, w, x)
            if not math.isfinite(y):
                continue
            for sym in "+-":
                for kind in ("scalar", "list", "ndarray"):
                    if kind == "scalar":
                        a, b = Scalar(x, u, name), Scalar(y, w, name)
                    else:
                        mk = list if kind == "list" else numpy.array
                        a, b = Array(mk([x, x]), u, name), Array(mk([y, y]), w, name)
                    r = a + b if sym == "+" else a - b
                    if r.GetCategory() != name:
                        ctx.cls("arithmetic_result_of_another_category")
                        continue
                    rv = r.GetValue() if kind == "scalar" else float(list(r.GetValues())[0])
                    v = self.amount(cfg, r.GetUnit(), rv)
                    if not math.isfinite(v) or self.near_boundary(cfg, v):
                        continue
                    want, _why = satisfies(v, cfg)
                    ctx.ev()
                    got = r.IsValid()
                    ctx.cls("arithmetic_result_validated")
                    if got != want:
                        ctx.fail("verdict_wrong:result_of_%s:%s" % ("sum" if sym == "+" else "difference", "accepts_invalid" if got else "rejects_valid"), case, "%r %s %r = %r (amount %r %s): IsValid()=%r, limits %r say %r" % (a, sym, b, r, v, cfg["default_unit"], got, _lim(cfg), want))

    def value_from(self, cfg, u, spec):
        """spec: ("raw", x) a value in unit u | ("bound", which, ulps) boundary expressed in u, shifted by ulps | ("nan",) | ("inf", sign)"""
        kind = spec[0]
        if kind == "raw":
            return spec[1]
        if kind == "nan":
            return NAN
        if kind == "inf":
            return math.inf * spec[1]
        b = cfg["min"] if spec[1] == "min" else cfg["max"]
        if b is None:
            b = cfg["max"] if cfg["max"] is not None else (cfg["min"] if cfg["min"] is not None else 1.0)
        x = b if u == cfg["default_unit"] else self.db.Convert(cfg["qt"], cfg["default_unit"], u, b)
        for _ in range(abs(spec[2])):
            x = math.nextafter(x, math.inf if spec[2] > 0 else -math.inf)
        return x


def _lim(cfg):
    return (cfg["min"], "excl" if cfg["min_excl"] else "incl", cfg["max"], "excl" if cfg["max_excl"] else "incl", cfg["default_unit"])


def _same(a, b):
    return a == b or (isinstance(a, float) and isinstance(b, float) and math.isnan(a) and math.isnan(b))


def case_strategy(db):
    lims = st.one_of(st.sampled_from([0.0, 1.0, -5.0, 10.0, 100.0, 273.15, -273.15, 101325.0, 1e-6, 1e6]), st.floats(min_value=-1e6, max_value=1e6, allow_nan=False))

    @st.composite
    def cfg(draw, qt=None, child=False):
        qt = qt or draw(st.sampled_from(QTS))
        units = db.GetUnits(qt)
        mode = draw(st.sampled_from(["both", "both", "min", "max", "none", "point"]))
        a, b = sorted([draw(lims), draw(lims)])
        if draw(st.integers(0, 19)) == 0:
            a, b = b, a  # occasionally inconsistent (max < min)
        mn = a if mode in ("both", "min", "point") else None
        mx = b if mode in ("both", "max") else (a if mode == "point" else None)
        me = draw(st.booleans()) if mn is not None and mode != "point" else False
        xe = draw(st.booleans()) if mx is not None and mode != "point" else False
        dvmode = draw(st.sampled_from(["none", "mid", "mid", "min", "max", "outside"]))
        if dvmode == "none":
            dv = None
        elif dvmode == "mid":
            lo = mn if mn is not None else (mx - 2.0 if mx is not None else -1.0)
            hi = mx if mx is not None else (mn + 2.0 if mn is not None else 1.0)
            dv = lo + (hi - lo) * draw(st.sampled_from([0.5, 0.25, 0.75]))
        elif dvmode == "min":
            dv = mn if mn is not None else 0.0
        elif dvmode == "max":
            dv = mx if mx is not None else 0.0
        else:
            dv = (mx + 1.0) if mx is not None else ((mn - 1.0) if mn is not None else 5.0)
        du = draw(st.one_of(st.none(), st.sampled_from(units), st.sampled_from(units[:3])))
        if draw(st.integers(0, 29)) == 0:
            du = "bv-no-such-unit"
        out = {"qt": qt, "min": mn, "max": mx, "min_excl": me, "max_excl": xe, "default_value": dv, "default_unit": du}
        if draw(st.integers(0, 5)) == 0:
            k = draw(st.integers(1, min(4, len(units))))
            out["valid_units"] = units[:k] if draw(st.booleans()) else units[-k:]
        if child:
            # a child overrides only some arguments of its parent
            keep = draw(st.sets(st.sampled_from(["min", "max", "min_excl", "max_excl", "default_value", "default_unit"]), max_size=3))
            for kname in ("min", "max", "default_value", "default_unit"):
                if kname not in keep:
                    out[kname] = None
            for kname in ("min_excl", "max_excl"):
                if kname not in keep:
                    out[kname] = False
            out.pop("valid_units", None)
        return out

    vals = st.one_of(
        st.tuples(st.just("raw"), gen.finite_values(1e9, 1e-9)),
        st.tuples(st.just("raw"), st.floats(min_value=-1e3, max_value=1e3, allow_nan=False)),
        st.tuples(st.just("bound"), st.sampled_from(["min", "max"]), st.sampled_from([0, 0, 1, -1, 2, -2, 3, -3])),
        st.tuples(st.just("bound"), st.sampled_from(["min", "max"]), st.sampled_from([0, 1, -1])),
        st.just(("nan",)),
        st.tuples(st.just("inf"), st.sampled_from([1, -1])),
    )

    @st.composite
    def case(draw):
        c = draw(cfg())
        return {
            "cfg": c,
            "child": draw(st.one_of(st.none(), st.none(), cfg(qt=c["qt"], child=True))),
            "other": draw(st.one_of(st.none(), cfg(qt=c["qt"]))),
            "ui": draw(st.integers(0, 200)),
            "wi": draw(st.integers(0, 200)),
            "values": draw(st.lists(vals, min_size=0, max_size=8)),
        }

    units_with_default = [u for qt in QTS for u in db.GetUnits(qt)[:6]]

    @st.composite
    def less_case(draw):
        u = draw(st.sampled_from(units_with_default))
        qt = db.GetCategoryQuantityType(db.GetDefaultCategory(u))
        return {"less": True, "u": u, "cfg": draw(cfg(qt=qt)), "values": draw(st.lists(vals, min_size=2, max_size=6))}

    return case(), less_case()


_ST = {}


def _checker(ctx):
    """one scratch database per process; rebuilt when it has grown large (names are unique)"""
    ch = _ST.get("ch")
    if ch is None or ch.counter > 3000:
        db = env.new_db("posc")
        ch = _ST["ch"] = Checker(ctx, db)
    ch.ctx = ctx
    return ch


def run_case(ctx, case):
    if case.get("less"):
        # these cases redefine categories of the shipped table: a database of their own, renewed now and then
        ch = _ST.get("less")
        if ch is None or ch.counter > 150:
            ch = _ST["less"] = Checker(ctx, env.new_db("posc"))
        ch.ctx = ctx
        with env.pushed(ch.db):
            ch.check_category_less_forms(case)
        return
    ch = _checker(ctx)
    with env.pushed(ch.db):
        ch.check(case)


def run_shard(spec, ctx):
    db = env.new_db("posc")
    strat, less = case_strategy(db)

    def mk():
        @given(strat)
        def test(case):
            core.guarded(ctx, lambda c: run_case(ctx, c), case)

        return test

    core.hunt(ctx, mk, spec["seed"] * 1000 + spec["shard"], spec["n"])

    def mk2():
        @given(less)
        def test(case):
            core.guarded(ctx, lambda c: run_case(ctx, c), case)

        return test

    core.hunt(ctx, mk2, spec["seed"] * 1000 + spec["shard"] + 300, max(40, spec["n"] // 8))


def replay(case, ctx):
    case = dict(case)
    case["values"] = [tuple(v) for v in case["values"]]
    _ST.clear()
    return core.replay_guarded(ctx, lambda c: run_case(ctx, c), case)
