"""C13 — operations never mutate their operands; copies and pickles are equal."""
import copy
import pickle

from hypothesis import given, strategies as st

from bv import core, env

PID = "C13"
RULE = (
    "Hypothesis generates operation sequences (about 25 steps on average, shrunk as one value) run by an interpreter "
    "over a pool of Scalar, Array (list, tuple, ndarray), FixedArray and FractionScalar objects on simple, derived, "
    "empty and unknown-caption quantities: all arithmetic and comparison operators (valid and failing), "
    "GetValue(s)(unit), CreateCopy (all argument forms), ChangeScalars, IsValid/CheckValidity, str/repr/GetFormatted, "
    "copy/deepcopy/Copy, pickle (Scalar, FixedArray), ChangingIndex/IndexAsScalar, FromScalars, ConvertFractionValue, "
    "UnitSystemManager.ConvertScalarToCurrent, number operands on both sides, sums whose operand was created directly on a derived quantity that writes two categories of one quantity type in different units. Invariant after every step: a deep "
    "snapshot of every pool member (class, value / container type, identity and contents, FractionValue number, "
    "numerator, denominator, unit, category, quantity identity, the quantity's composing map, composing units and unit name, dimension) and of every caller-owned container is "
    "unchanged; arithmetic results are new objects; copy, deepcopy, CreateCopy(), pickle == original. CreateCopy() and pickle round trips made while another database (a second instance of the shipped table) is current still equal the original. Captions also accompany known units. Non-trivial = "
    "sequence with a step that converts units on an operand holding a caller-owned mutable container or a "
    "FractionValue; key = the sequence."
)
ASSUMPTIONS = ["the container returned by GetValues() is the caller's own object by design; mutation by the caller is out of scope"]
BUDGET_S = {"quick": 120, "thorough": 1200}
N = {"quick": 600, "thorough": 5000}
SHARDS = {"quick": 8, "thorough": 16}

_OTHER_DB = None

# two categories of one quantity type written in different units, and a third spelling for the other operand
MIXED = [
    (("length", "m"), ("depth", "cm"), ("length", "m")),
    (("length", "km"), ("diameter", "in"), ("depth", "ft")),
    (("volume", "m3"), ("liquid volume", "ft3"), ("gas volume", "m3")),
    (("pressure", "Pa"), ("yield stress", "psi"), ("force per area", "bar")),
]

UNITS = [
    ("m", "length"), ("cm", "length"), ("km", "depth"), ("ft", "depth"), ("in", "diameter"), ("s", "time"), ("min", "time"),
    ("kg", "mass"), ("g", "mass"), ("K", "temperature"), ("degC", "temperature"), ("degF", "temperature"), ("m2", "area"),
    ("Pa", "pressure"), ("psi", "pressure"), ("<unknown>", "Unknown"), ("m", "bv limited length"), ("cm", "bv limited length"),
]
VALUES = [1.0, 2.0, -3.5, 0.0, 0.25, 1e3, 7.0, -1.0, 12.5, 1e-3]


def plan(tier, seed):
    return [{"tier": tier, "seed": seed, "n": N[tier]} for _ in range(SHARDS[tier])]


def snap(o):
    import numpy

    from barril.basic.fraction import FractionValue
    from barril.units import Array, FixedArray, FractionScalar, Scalar

    q = o.GetQuantity()
    # the composing map and the unit name are read from the quantity's internals on every call (unit and category are
    # strings computed once): an operation that rewrites the shared quantity in place shows here
    base = (type(o).__name__, id(q), o.GetUnit(), o.GetCategory(), o.GetQuantityType(), repr(list(q.GetCategoryToUnitAndExps().items())), q.GetUnitName() if not q.IsDerived() or q.GetUnit() else "", repr(q.GetComposingUnitsJoiningExponents()))
    if isinstance(o, Scalar):
        return base + (repr(getattr(o, "_value", None)), repr(o.GetValue()))
    if isinstance(o, FractionScalar):
        fv = o.GetValue()
        assert isinstance(fv, FractionValue)
        fr = fv.GetFraction()
        return base + (id(fv), repr(fv.GetNumber()), id(fr), repr(fr.numerator), repr(fr.denominator))
    if isinstance(o, Array):
        v = o.GetValues()
        if isinstance(v, numpy.ndarray):
            content = (str(v.dtype), v.shape, v.tobytes())
        else:
            content = tuple(repr(x) for x in v)
        dim = o.dimension if isinstance(o, FixedArray) else None
        return base + (type(v).__name__, id(v), content, dim)
    raise core.HarnessError("unknown object %r" % (o,))


class Machine:
    def __init__(self, ctx, db, case):
        self.ctx = ctx
        self.db = db
        self.case = case
        self.pool = []
        self.snaps = []
        self.owned = []  # (container, frozen contents)
        self.flags = set()

    def fail(self, key, msg):
        self.ctx.fail(key, self.case, msg)

    def add(self, o, owned=None):
        import math

        if len(self.pool) >= 14:
            return
        # NaN/inf (0/0, x/0) are outside the statement's domain: equality of NaN is not reflexive in IEEE
        from barril.units import Array, Scalar

        vals = [o.GetValue()] if isinstance(o, Scalar) else (list(o.GetValues()) if isinstance(o, Array) else [])
        try:
            if not all(math.isfinite(float(v)) for v in vals):
                self.ctx.cls("result_not_finite_not_pooled")
                return
        except (TypeError, ValueError):
            return
        self.pool.append(o)
        self.snaps.append(snap(o))
        if owned is not None:
            self.owned.append((owned, self.freeze(owned)))

    def freeze(self, c):
        import numpy

        if isinstance(c, numpy.ndarray):
            return (str(c.dtype), c.shape, c.tobytes())
        return tuple(repr(x) for x in c)

    def pick(self, i, cls=None):
        cand = [o for o in self.pool if cls is None or isinstance(o, cls)]
        return cand[i % len(cand)] if cand else None

    def invariant(self, op):
        for o, s in zip(self.pool, self.snaps):
            self.ctx.ev()
            now = snap(o)
            if now != s:
                diff = [i for i, (a, b) in enumerate(zip(s, now)) if a != b]
                self.fail("operand_mutated:%s:%s" % (type(o).__name__, op[0]), "after %r the %s observed as %r is %r (fields %r)" % (op, type(o).__name__, s, now, diff))
        for c, f in self.owned:
            self.ctx.ev()
            if self.freeze(c) != f:
                self.fail("caller_container_mutated:%s" % op[0], "after %r a caller-owned %s changed from %r to %r" % (op, type(c).__name__, f, self.freeze(c)))

    def new_object(self, r, operands):
        for x in operands:
            if r is x:
                self.fail("result_is_operand_object", "operation returned one of its operands: %r" % (r,))

    def apply(self, op):
        import numpy

        from barril.basic.fraction import FractionValue
        from barril.units import Array, ChangeScalars, FixedArray, FractionScalar, Quantity, Scalar
        from barril.units.unit_database import UnitsError
        from barril.units.unit_system_manager import UnitSystemManager

        ctx = self.ctx
        kind = op[0]
        ctx.cls("op_" + kind)
        # this property is about mutation and copies only: whether an operation is accepted or rejected
        # is the business of other properties, so every rejection is tolerated here (and counted)
        EXC = Exception
        if kind == "new":
            _, what, ui, vi, n, cap = op
            u, c = UNITS[ui % len(UNITS)]
            vals = [VALUES[(vi + k) % len(VALUES)] for k in range(2 + n % 3)]
            from barril.units import ObtainQuantity

            # (a caption may accompany a known unit too; it is part of the quantity all the same)
            q = ObtainQuantity(u, c, "cap" if (cap % 4 == 0 and c == "Unknown") or cap % 7 == 3 else None)
            what = what % 7
            if what == 0:
                self.add(Scalar.CreateWithQuantity(q, vals[0]))
            elif what == 1:
                lst = list(vals)
                self.add(Array.CreateWithQuantity(q, lst), lst)
            elif what == 2:
                self.add(Array.CreateWithQuantity(q, tuple(vals)))
            elif what == 3:
                arr = numpy.array(vals, dtype=numpy.float64)
                self.add(Array.CreateWithQuantity(q, arr), arr)
            elif what == 4:
                lst = list(vals)
                self.add(FixedArray(len(lst), q, lst), lst)
            elif what == 5:
                arr = numpy.array(vals, dtype=numpy.float64)
                self.add(FixedArray(len(vals), q, arr), arr)
            else:
                self.add(FractionScalar.CreateWithQuantity(q, FractionValue(int(vals[0]), (1 + vi % 5, 2 + vi % 7))))
                self.flags.add("fraction")
        elif kind == "mixed_sum":
            # an operand created directly on a derived quantity that writes two categories of one quantity type in
            # different units (m.cm, m3/ft3): adding or subtracting a compatible amount has to match those units to
            # each other - on copies, never inside the operand's (shared, cached) quantity
            _, fam, e2, what, o, vi = op
            from collections import OrderedDict

            (c1, u1), (c2, u2), (c3, u3) = MIXED[fam % len(MIXED)]
            e2 = [1, -1, 2][e2 % 3]
            q = Quantity.CreateDerived(OrderedDict([(c1, [u1, 1]), (c2, [u2, e2])]))
            vals = [VALUES[(vi + k) % len(VALUES)] for k in range(2)]
            if what % 3 == 0:
                a = Scalar.CreateWithQuantity(q, vals[0])
                mk = lambda q_, v: Scalar.CreateWithQuantity(q_, v)
            elif what % 3 == 1:
                lst = list(vals)
                a = Array.CreateWithQuantity(q, lst)
                mk = lambda q_, v: Array.CreateWithQuantity(q_, [v, v])
            else:
                arr = numpy.array(vals, dtype=numpy.float64)
                a = Array.CreateWithQuantity(q, arr)
                mk = lambda q_, v: Array.CreateWithQuantity(q_, numpy.array([v, v]))
            qb = Quantity.CreateDerived(OrderedDict([(c3, [u3, 1 + e2])])) if 1 + e2 != 0 else None
            self.add(a)
            if qb is None:
                return
            b = mk(qb, 1.0)
            self.add(b)
            self.invariant(("mixed_sum:created",) + tuple(op[1:]))
            try:
                r = [lambda: a + b, lambda: a - b, lambda: b + a, lambda: b - a][o % 4]()
            except EXC as e:
                ctx.cls("mixed_sum_rejected:" + type(e).__name__)
                return
            self.flags.add("converted")
            ctx.cls("mixed_sum_done")
            self.new_object(r, (a, b))
        elif kind == "copy_while_another_database_is_current":
            # applications switch databases (PushSingleton): a copy or pickle round trip made while another database -
            # here a second instance of the shipped table - is current still equals the original
            a = self.pick(op[1])
            if a is None:
                return
            global _OTHER_DB
            if _OTHER_DB is None:
                _OTHER_DB = env.new_db("posc")
            try:
                with env.pushed(_OTHER_DB):
                    c = a.CreateCopy()
                    p = pickle.loads(pickle.dumps(a, op[2] % (pickle.HIGHEST_PROTOCOL + 1))) if isinstance(a, (Scalar, FixedArray)) and not isinstance(a, FractionScalar) else None
            except EXC as e:
                ctx.cls("copy_under_other_database_rejected:" + type(e).__name__)
                return
            ctx.cls("copy_under_other_database_done")
            for what, o in (("CreateCopy()", c), ("pickle round trip", p)):
                if o is None:
                    continue
                try:
                    same = bool(o == a) and bool(a == o)
                except EXC:
                    same = False
                if not same:
                    self.fail("copy_not_equal:made_while_another_database_is_current", "%s of %r made while another database was current gives %r, which is not equal to it" % (what, a, o))
        elif kind == "new_empty":
            if op[1] % 2:
                self.add(Scalar.CreateEmptyScalar(VALUES[op[2] % len(VALUES)]))
            else:
                lst = [1.0, 2.0]
                self.add(Array.CreateEmptyArray(lst), lst)
        elif kind == "binop":
            _, i, j, o = op
            a = self.pick(i)
            b = self.pick(j)
            if a is None:
                return
            if isinstance(a, FractionScalar) or isinstance(b, FractionScalar):
                o = 5 + o % 3
            o = o % 8
            try:
                if o == 0:
                    r = a + b
                elif o == 1:
                    r = a - b
                elif o == 2:
                    r = a * b
                elif o == 3:
                    r = a / b
                elif o == 4:
                    r = a // b
                elif o == 5:
                    r = None
                    a < b
                    a >= b
                elif o == 6:
                    r = None
                    a == b
                    a != b
                else:
                    r = None
                    a > b
                    a <= b
            except EXC as e:
                ctx.cls("binop_rejected:" + type(e).__name__)
                return
            if a.GetUnit() != b.GetUnit():
                self.flags.add("converted")
            if r is not None:
                self.new_object(r, (a, b))
                if len(r.GetQuantity().GetCategoryToUnitAndExps()) <= 4:
                    self.add(r)
        elif kind == "numop":
            _, i, vi, o, side = op
            a = self.pick(i, (Scalar, Array))
            if a is None:
                return
            k = [2.0, 3, numpy.float64(1.5), numpy.int64(2), 0.5][vi % 5]
            try:
                fn = [lambda x, y: x + y, lambda x, y: x - y, lambda x, y: x * y, lambda x, y: x / y, lambda x, y: x // y][o % 5]
                r = fn(a, k) if side % 2 else fn(k, a)
            except EXC:
                ctx.cls("numop_rejected")
                return
            if hasattr(r, "GetQuantity"):
                self.new_object(r, (a,))
                if len(r.GetQuantity().GetCategoryToUnitAndExps()) <= 4:
                    self.add(r)
        elif kind == "getvalue":
            _, i, ui = op
            a = self.pick(i)
            if a is None:
                return
            u, _c = UNITS[ui % len(UNITS)]
            try:
                if isinstance(a, Array):
                    r = a.GetValues(u)
                else:
                    r = a.GetValue(u)
            except EXC:
                return
            if u != a.GetUnit():
                self.flags.add("converted")
        elif kind == "createcopy":
            _, i, form, ui, vi = op
            a = self.pick(i)
            if a is None:
                return
            u, c = UNITS[ui % len(UNITS)]
            v = VALUES[vi % len(VALUES)]
            form = form % 5
            try:
                if form == 0:
                    r = a.CreateCopy()
                    ctx.ev()
                    if not (r == a) or (r != a):
                        self.fail("createcopy_not_equal", "%r.CreateCopy() = %r" % (a, r))
                elif form == 1:
                    r = a.CreateCopy(unit=u)
                    if u != a.GetUnit():
                        self.flags.add("converted")
                elif form == 2:
                    if isinstance(a, Array):
                        r = a.CreateCopy(values=[v] * len(a.GetValues()))
                    else:
                        r = a.CreateCopy(value=v)
                elif form == 3:
                    if isinstance(a, Array):
                        r = a.CreateCopy([v] * len(a.GetValues()), u, c)
                    else:
                        r = a.CreateCopy(v, u, c)
                else:
                    if not isinstance(a, Scalar):
                        return
                    o = type("Owner", (), {})()
                    o.x = a
                    ChangeScalars(o, x=(None, u))
                    r = o.x
            except EXC:
                ctx.cls("createcopy_rejected")
                return
            self.new_object(r, (a,))
            self.add(r)
        elif kind == "validity":
            a = self.pick(op[1])
            if a is None:
                return
            a.IsValid()
            try:
                a.CheckValidity()
            except ValueError:
                pass
            a.IsValid()
        elif kind == "format":
            a = self.pick(op[1])
            if a is None:
                return
            str(a)
            repr(a)
            a.GetFormattedSuffix()
            a.GetUnitName()
            try:
                a.GetValidUnits()
            except UnitsError:
                pass
            if isinstance(a, (Scalar, FractionScalar)):
                a.GetFormatted()
                a.GetFormattedValue()
                a.GetValueAndUnit()
                u, _c = UNITS[op[2] % len(UNITS)]
                try:
                    a.GetFormatted(u)
                except EXC:
                    pass
            else:
                if len(a) > 0:
                    a[0]
                list(iter(a))
        elif kind == "copy":
            a = self.pick(op[1])
            if a is None:
                return
            for name, c in (("copy", copy.copy(a)), ("deepcopy", copy.deepcopy(a)), ("Copy", a.Copy()), ("deepcopy in list", copy.deepcopy([a])[0])):
                ctx.ev()
                if not (c == a) or (c != a):
                    self.fail("copy_not_equal:%s" % type(a).__name__, "%s of %r is %r" % (name, a, c))
        elif kind == "pickle":
            a = self.pick(op[1], (Scalar, FixedArray))
            if a is None or type(a) not in (Scalar, FixedArray):
                return
            b = pickle.loads(pickle.dumps(a, protocol=op[2] % (pickle.HIGHEST_PROTOCOL + 1)))
            ctx.ev()
            if not (b == a and a == b) or b != a:
                self.fail("pickle_not_equal:%s" % type(a).__name__, "%r -> %r" % (a, b))
            if b is a:
                self.fail("result_is_operand_object", "pickle round trip returned the same object")
            if isinstance(a, Scalar) and hash(a) != hash(b):
                self.fail("pickle_not_equal:Scalar", "hash differs after pickle: %r" % (a,))
        elif kind == "index":
            _, i, idx, vi, ui, form = op
            a = self.pick(i, FixedArray)
            if a is None:
                return
            n = a.dimension
            u, c = UNITS[ui % len(UNITS)]
            v = VALUES[vi % len(VALUES)]
            try:
                if form % 4 == 0:
                    r = a.ChangingIndex(idx % n, v)
                elif form % 4 == 1:
                    r = a.ChangingIndex(idx % n, (v, u))
                elif form % 4 == 2:
                    r = a.ChangingIndex(idx % n, Scalar(v, u, c), use_value_unit=bool(idx % 2))
                else:
                    r = a.IndexAsScalar(idx % n)
            except EXC:
                ctx.cls("index_rejected")
                return
            self.new_object(r, (a,))
            self.add(r)
        elif kind == "fromscalars":
            _, idxs, ui = op
            scalars = [s for s in (self.pick(i, Scalar) for i in idxs) if s is not None]
            u, c = UNITS[ui % len(UNITS)]
            try:
                r = Array.FromScalars(scalars) if ui % 3 else Array.FromScalars(scalars, unit=u)
            except EXC:
                ctx.cls("fromscalars_rejected")
                return
            self.add(r)
        elif kind == "fraction_convert":
            _, i, ui = op
            a = self.pick(i, FractionScalar)
            if a is None:
                return
            u, c = UNITS[ui % len(UNITS)]
            fv = a.GetValue()
            try:
                r = FractionScalar.ConvertFractionValue(fv, a.GetQuantity(), a.GetUnit(), u)
            except EXC:
                return
            self.flags.add("converted")
        elif kind == "to_current":
            _, i, ui = op
            a = self.pick(i, Scalar)
            if a is None or type(a) is not Scalar:
                return
            u, c = UNITS[ui % len(UNITS)]
            m = UnitSystemManager()
            m.AddUnitSystem("s", "c", {c: u})
            try:
                r = m.ConvertScalarToCurrent(a)
            except EXC:
                return
            self.new_object(r, (a,))
        else:
            raise core.HarnessError("unknown op %r" % (op,))

    def run(self, ops):
        for op in ops:
            self.apply(op)
            self.invariant(op)
        if "converted" in self.flags and (self.owned or "fraction" in self.flags):
            self.ctx.nontrivial(repr(ops), {"ops": ops, "pool": [repr(o) for o in self.pool[:6]]})


def _new_strategy():
    i = st.integers(0, 30)
    return st.tuples(st.just("new"), i, st.one_of(st.integers(0, 4), i), i, i, i)


def op_strategy():
    i = st.integers(0, 30)
    new = _new_strategy()
    return st.one_of(
        new,
        new,
        new,
        st.tuples(st.just("new_empty"), i, i),
        st.tuples(st.just("mixed_sum"), i, i, i, i, i),
        st.tuples(st.just("copy_while_another_database_is_current"), i, i),
        st.tuples(st.just("binop"), i, i, i),
        st.tuples(st.just("binop"), i, i, i),
        st.tuples(st.just("binop"), i, i, i),
        st.tuples(st.just("numop"), i, i, i, i),
        st.tuples(st.just("getvalue"), i, i),
        st.tuples(st.just("getvalue"), i, i),
        st.tuples(st.just("createcopy"), i, i, i, i),
        st.tuples(st.just("validity"), i),
        st.tuples(st.just("format"), i, i),
        st.tuples(st.just("copy"), i),
        st.tuples(st.just("pickle"), i, i),
        st.tuples(st.just("index"), i, i, i, i, i),
        st.tuples(st.just("fromscalars"), st.lists(i, min_size=0, max_size=4), i),
        st.tuples(st.just("fraction_convert"), i, i),
        st.tuples(st.just("to_current"), i, i),
    )


def _tupled(ops):
    return [tuple(op) for op in ops]


_DB = {}


def _fingerprint(db):
    return (len(db.unit_to_unit_info), len(db.categories_to_quantity_types), sum(len(v) for v in db.quantity_types.values()))


def run_case(ctx, ops):
    db = _DB.get("db")
    if db is None or _fingerprint(db) != _DB["fp"] or not env.clear_caches(db):
        db = _DB["db"] = env.new_db("posc")
        # categories with limits so that validation has something to do
        db.AddCategory("bv limited length", "length", min_value=0.0, max_value=100.0, default_value=1.0, default_unit="m")
        _DB["fp"] = _fingerprint(db)
    with env.pushed(db):
        Machine(ctx, db, {"ops": ops}).run(ops)


def conversion_sweep(ctx):
    """Every conversion route over caller-owned float ndarrays and lists, for unit pairs of every structural kind
    (offset only, offset and scale, scale only, identity, both directions): the container holds the same numbers
    afterwards, and so does the object.  (Deterministic: the generated histories reach these combinations by chance.)"""
    import numpy

    from barril.units import Array, FixedArray, Scalar

    db = env.new_db("posc")
    pairs = [("degC", "K"), ("K", "degC"), ("degF", "K"), ("degC", "degF"), ("Pa(g)", "Pa"), ("bar(g)", "psi"), ("m", "cm"), ("ft", "m"), ("m", "m"), ("s", "min")]
    with env.pushed(db):
        for u, v in pairs:
            for kind in ("ndarray", "list", "ndarray_f32"):
                base = [1.5, -2.0, 40.0]
                mk = (lambda: numpy.array(base)) if kind == "ndarray" else ((lambda: list(base)) if kind == "list" else (lambda: numpy.array(base, dtype=numpy.float32)))
                routes = [
                    ("Array.GetValues", lambda c: Array(c, u).GetValues(v)),
                    ("Array.CreateCopy(unit)", lambda c: Array(c, u).CreateCopy(unit=v)),
                    ("Array + Array", lambda c: Array(c, u) + Array(mk(), v)),
                    ("Array on the right of +", lambda c: Array(mk(), v) + Array(c, u)),
                    ("Array on the right of *", lambda c: (Array(mk(), v) * Array(mk(), v)) * Array(c, u)),
                    ("FixedArray.GetValues", lambda c: FixedArray(3, c, u).GetValues(v)),
                    ("FixedArray.ChangingIndex", lambda c: FixedArray(3, c, u).ChangingIndex(0, Scalar(1.0, v))),
                    ("FixedArray.IndexAsScalar", lambda c: FixedArray(3, c, u).IndexAsScalar(1, Scalar(1.0, v).GetQuantity())),
                    ("db.Convert", lambda c: db.Convert(Scalar(1.0, u).GetQuantityType(), u, v, c)),
                    ("Quantity.Convert", lambda c: Scalar(1.0, u).GetQuantity().Convert(c, v)),
                ]
                for name, fn in routes:
                    c = mk()
                    ctx.ev()
                    try:
                        fn(c)
                    except Exception as e:
                        if core.tree_frame(e) is None:
                            raise
                        ctx.cls("conversion_sweep_rejected:" + type(e).__name__)
                    if [float(t) for t in c] != [float(t) for t in mk()]:
                        ctx.record("caller_container_mutated:conversion_sweep:%s:%s" % (name, kind), {"kind": "conversion_sweep", "route": name, "u": u, "v": v, "container": kind}, "%s from %r to %r changed the caller's %s from %r to %r" % (name, u, v, kind, base, [float(t) for t in c]))
    ctx.cls("conversion_sweep_done")


def run_shard(spec, ctx):
    if spec.get("shard", 0) == 0:
        conversion_sweep(ctx)
    body = st.lists(st.lists(op_strategy(), min_size=1, max_size=10), min_size=1, max_size=8).map(lambda ll: [o for l in ll for o in l])
    ops = st.tuples(st.lists(_new_strategy(), min_size=0, max_size=6), body).map(lambda t: list(t[0]) + list(t[1]))

    def mk():
        @given(ops)
        def test(seq):
            core.guarded(ctx, lambda c: run_case(ctx, c["ops"]), {"ops": _tupled(seq)})

        return test

    core.hunt(ctx, mk, spec["seed"] * 1000 + spec["shard"], spec["n"])


def replay(case, ctx):
    if case.get("kind") == "conversion_sweep":
        conversion_sweep(ctx)
        return ["%s: %s" % (k, v["msg"]) for k, v in ctx.violations.items()]
    return core.replay_guarded(ctx, lambda c: run_case(ctx, c["ops"]), {"ops": _tupled(case["ops"])})
