"""C14 — the unit registry stays well-formed under any registration history."""
import collections
import copy
import itertools

from hypothesis import given, strategies as st

from bv import core, env, legacy, snapshot

PID = "C14"
RULE = (
    "(a) bounded-exhaustive: every sequence of registration calls up to length 4 (quick) / 5 plus a seed-selected slice "
    "of length 6 (thorough) over an alphabet of 21 concrete calls on small pools (AddUnitBase; AddUnit with string and "
    "callable formulas, a duplicate symbol in another type, a bad formula, a non-str unit; AddCategory plain, with "
    "valid_units, default_unit, legacy spellings, limits and defaults valid and invalid, override, another quantity "
    "type, from_category with partial overrides, unknown type/parent, both quantity_type and from_category), each on a "
    "fresh database; (b) Hypothesis-generated long histories with generated arguments; both compared step by step with "
    "a reference model of the three maps: accept/reject, GetQuantityTypes, GetUnits/GetUnitNames order, GetBaseUnit, "
    "GetQuantityType(unit), GetDefaultCategory, IterCategories, every CategoryInfo field, GetValidUnits, and the "
    "invariants: one quantity type per symbol, identity base first once a base was registered, category type exists, "
    "default/valid units within the type, default value within limits, Scalar(category) builds and IsValid(), "
    "Scalar(1,u,c) builds for every unit and category of its type and holds the category as registered now, as does the "
    "unit-only form ObtainQuantity(u), CheckCategoryUnit of every (category name, unit symbol) of the pools - registered "
    "or not yet - agrees with the model after every step; a rejected call leaves the full snapshot identical. "
    "(c) static sweep of the three shipped databases with the same invariants. Unit symbols include two that merely contain a legacy fragment (lbmole(lab), 1000m3(st)). A second database in which the pool's names mean the opposite is asked before a third of the lookups; default values exactly on and a hair beside inclusive and exclusive limits are registered (exact comparison). Categories that carry the name of a quantity type (their own or another one's) are registered in every order next to categories of those types: every unit GetValidUnits names belongs to the category's type, and the call terminates. Non-trivial = history with a rejection, "
    "an override or a unit registered before its base; key = the history."
)
ASSUMPTIONS = [
    "a quantity type that has only ever received non-base units has no base yet; that incomplete state is counted, not alarmed (the API cannot reject it)",
    "exception classes of rejected registrations are not compared, only accept/reject",
]
BUDGET_S = {"quick": 150, "thorough": 1500}


def k1(x):
    return x / 1000.0


def k2(x):
    return x * 1000.0


CALLABLES = {"@k1": k1, "@k2": k2}

OPS = [
    ["base", "L", "metre", "m"],
    ["unit", "L", "centimetre", "cm", "%f*100.0", "%f/100.0", None],
    ["unit", "L", "kilometre", "km", "@k1", "@k2", "depth"],
    ["base", "T", "second", "s"],
    ["unit", "T", "minute", "min", "x/60.0", "x*60.0", None],
    ["unit", "T", "metre2", "m", "%f", "%f", None],  # duplicate symbol across types
    ["unit", "L", "bad", "mm", "%f*", "%f/1000.0", None],  # bad formula
    ["unit", "L", "pound mole", "lbmol", "%f*2.0", "%f/2.0", None],  # a symbol that has a legacy spelling
    ["unit", "L", "not a string", 5, "%f", "%f", None],
    ["cat", "L", {"quantity_type": "L"}],
    ["cat", "depth", {"quantity_type": "L", "valid_units": ["cm", "km"]}],
    ["cat", "depth", {"quantity_type": "L", "override": True, "default_unit": "km", "min_value": 0.0, "max_value": 10.0, "default_value": 5.0}],
    ["cat", "depth", {"quantity_type": "T", "override": True}],
    ["cat", "x", {"from_category": "depth", "min_value": 1.0}],
    ["cat", "x", {"from_category": "depth", "override": True, "valid_units": ["m"]}],
    ["cat", "moles", {"quantity_type": "L", "valid_units": ["lbmole", "m"], "default_unit": "lbmole"}],
    ["cat", "bad1", {"quantity_type": "Q"}],
    ["cat", "bad2", {"quantity_type": "L", "default_unit": "s"}],
    ["cat", "bad3", {"quantity_type": "L", "min_value": 2.0, "is_min_exclusive": True}],
    ["cat", "bad4", {"quantity_type": "L", "min_value": 2.0, "default_value": 1.0}],
    ["cat", "bad5", {"quantity_type": "L", "from_category": "depth"}],
]


EDGE_CATS = [
    ["cat", "e1", {"quantity_type": "L", "max_value": 10.0, "default_value": 10.0000004}],
    ["cat", "e2", {"quantity_type": "L", "min_value": 0.0, "default_value": -4e-7}],
    ["cat", "e3", {"quantity_type": "L", "max_value": 0.3, "default_value": 0.1 + 0.2}],
    ["cat", "e4", {"quantity_type": "L", "min_value": 2e-7, "max_value": 5e-7, "default_value": 0.0}],
    ["cat", "e5", {"quantity_type": "L", "max_value": 10.0, "default_value": 10.0}],
    ["cat", "e6", {"quantity_type": "L", "max_value": 10.0, "is_max_exclusive": True, "default_value": 10.0}],
    ["cat", "e7", {"quantity_type": "L", "min_value": 1e-9, "default_value": 1e-9}],
    ["cat", "e8", {"quantity_type": "L", "min_value": 1e-9, "is_min_exclusive": True, "default_value": 1e-9}],
    ["cat", "e9", {"from_category": "depth", "default_value": 10.0000004}],
    ["cat", "e10", {"from_category": "depth", "default_value": -3e-10}],
    ["cat", "e11", {"quantity_type": "L", "min_value": -1.0, "max_value": 1.0, "default_value": 1.0 + 2e-16}],
]
POOL_CATEGORIES = ["L", "T", "depth", "x", "moles", "y", "M"]
_DECOY = []


def _decoy_db():
    """a database alive next to the one under test in which the pool's names mean the opposite (L holds the time units,
    T the length units, every category of the pool exists)"""
    if not _DECOY:
        from barril.units import UnitDatabase

        d = UnitDatabase()
        d.AddUnitBase("L", "second", "s")
        d.AddUnit("L", "minute", "min", "%f/60.0", "%f*60.0")
        d.AddUnit("L", "lbmol", "lbmol", "%f*2.0", "%f/2.0")
        d.AddUnitBase("T", "metre", "m")
        d.AddUnit("T", "centimetre", "cm", "%f*100.0", "%f/100.0")
        d.AddUnit("T", "kilometre", "km", "%f/1000.0", "%f*1000.0")
        d.AddUnit("T", "kilogram", "kg", "%f*3.0", "%f/3.0")
        for c, qt in (("L", "L"), ("T", "T"), ("depth", "T"), ("x", "L"), ("moles", "T"), ("y", "L"), ("M", "L")):
            d.AddCategory(c, qt)
        _DECOY.append(d)
    return _DECOY[0]
POOL_UNITS = ["m", "cm", "km", "s", "min", "lbmol", "kg"]


def plan(tier, seed):
    specs = []
    n = 8 if tier == "quick" else 16
    for i in range(n):
        specs.append({"part": "exhaustive", "i": i, "n": n, "tier": tier, "seed": seed})
    for i in range(2 if tier == "quick" else 4):
        specs.append({"part": "random", "tier": tier, "seed": seed, "examples": 150 if tier == "quick" else 5000})
    specs.append({"part": "static", "tier": tier, "seed": seed})
    return specs


# =============================================================================================
# reference model


class Model:
    def __init__(self):
        self.qt = collections.OrderedDict()  # quantity type -> [unit symbols], base first
        self.units = {}  # symbol -> dict(qt, name, dc, base)
        self.cats = collections.OrderedDict()

    def clone(self):
        return copy.deepcopy(self)


def _formula_ok(f):
    if not isinstance(f, str) or f.startswith("@"):
        return True
    ss = f.replace("%s", "x").replace("%f", "x")
    if "x" not in ss:
        return False
    try:
        eval("lambda x:%s" % ss)
    except SyntaxError:
        return False
    return True


def model_apply(m, op):
    """True if the call is accepted (and applied to m)"""
    if op[0] in ("base", "unit"):
        if op[0] == "base":
            _, qt, name, u = op
            fb = tb = "@id"
            dc = None
        else:
            _, qt, name, u, fb, tb, dc = op
        if not isinstance(u, str):
            return False
        if not _formula_ok(fb) or not _formula_ok(tb):
            return False
        if u in m.units:
            return False
        m.units[u] = dict(qt=qt, name=name, dc=dc, base=(op[0] == "base"))
        lst = m.qt.setdefault(qt, [])
        if op[0] == "base":
            lst.insert(0, u)
        else:
            lst.append(u)
        return True
    _, cat, kw = op
    kw = dict(kw)
    qt = kw.get("quantity_type")
    fc = kw.get("from_category")
    ov = kw.get("override", False)
    vu, du, dv = kw.get("valid_units"), kw.get("default_unit"), kw.get("default_value")
    mn, mx = kw.get("min_value"), kw.get("max_value")
    me, xe = kw.get("is_min_exclusive", False), kw.get("is_max_exclusive", False)
    if fc and qt:
        return False
    if not ov and cat in m.cats:
        return False
    if mn is not None and mx is not None and mx < mn:
        return False
    if fc:
        if fc not in m.cats:
            return False
        ci = m.cats[fc]
        qt = ci["qt"]
        if vu is None:
            vu = ci["vu"]
        if du is None:
            du = ci["du"]
        if dv is None:
            dv = ci["dv"]
        if mn is None:
            mn = ci["mn"]
        if mx is None:
            mx = ci["mx"]
    if qt is None:
        return False
    if qt not in m.qt:
        return False
    if vu is not None:
        vu = [legacy.rewrite(u) for u in vu]
        if any(u not in m.qt[qt] for u in vu):
            return False
    if du is None:
        du = m.qt[qt][0]
        if vu and du not in vu:
            du = vu[0]
    else:
        du = legacy.rewrite(du)
        if du not in m.qt[qt]:
            return False
    if dv is None:
        if me or xe:
            return False
        dv = mn if mn is not None else (mx if mx is not None else 0.0)
    else:
        if mn is not None and not (dv > mn if me else dv >= mn):
            return False
        if mx is not None and not (dv < mx if xe else dv <= mx):
            return False
    m.cats[cat] = dict(qt=qt, vu=None if vu is None else list(vu), du=du, dv=dv, mn=mn, mx=mx, me=me, xe=xe)
    return True


def m_valid_units(m, cat):
    ci = m.cats[cat]
    if ci["vu"] is not None:
        return ci["vu"]
    # the category named after the quantity type lends its valid units only when it is of that type
    tc = m.cats.get(ci["qt"])
    if ci["qt"] != cat and tc is not None and tc["qt"] == ci["qt"]:
        return m_valid_units(m, ci["qt"])
    return m.qt[ci["qt"]]


def m_default_category(m, u):
    ui = m.units[u]
    if ui["dc"]:
        return ui["dc"]
    return ui["qt"] if ui["qt"] in m.cats else None


def within(dv, ci):
    if ci["mn"] is not None and not (dv > ci["mn"] if ci["me"] else dv >= ci["mn"]):
        return False
    if ci["mx"] is not None and not (dv < ci["mx"] if ci["xe"] else dv <= ci["mx"]):
        return False
    return True


# =============================================================================================


def observe(db, m):
    """first disagreement between the real registry and the model / first broken invariant, else None"""
    from barril.units import Scalar
    from barril.units.unit_database import UnitsError

    if list(db.GetQuantityTypes()) != sorted(m.qt):
        return ("quantity_types", db.GetQuantityTypes(), sorted(m.qt))
    seen = collections.Counter()
    for qt, infos in db.quantity_types.items():
        for i in infos:
            seen[i.unit] += 1
            if i.quantity_type != qt:
                return ("INV unit listed under another type", i.unit, qt, i.quantity_type)
    for u, n in seen.items():
        if n != 1:
            return ("INV symbol in more than one quantity type", u, n)
    if set(seen) != set(db.unit_to_unit_info) or set(seen) != set(m.units):
        return ("unit_index", sorted(map(str, seen)), sorted(map(str, m.units)))
    for qt, us in m.qt.items():
        if db.GetUnits(qt) != us:
            return ("units", qt, db.GetUnits(qt), us)
        if db.GetBaseUnit(qt) != us[0]:
            return ("base_unit", qt, db.GetBaseUnit(qt), us[0])
        if db.GetUnitNames(qt) != [m.units[u]["name"] for u in us]:
            return ("unit_names", qt)
        if any(m.units[u]["base"] for u in us):
            info = db.GetInfo(qt, us[0])
            if not m.units[us[0]]["base"] or info.tobase(3.5) != 3.5 or info.frombase(3.5) != 3.5:
                return ("INV first unit is not the identity base", qt, us[0])
    for u, ui in m.units.items():
        if db.GetQuantityType(u) != ui["qt"]:
            return ("quantity_type_of_unit", u, db.GetQuantityType(u), ui["qt"])
        if db.GetDefaultCategory(u) != m_default_category(m, u):
            return ("default_category", u, db.GetDefaultCategory(u), m_default_category(m, u))
    # the forms that leave the category out resolve it through the unit; what they return reflects the category as it
    # is registered now (not as it was when the unit was first asked for)
    from barril.units import ObtainQuantity

    for u, ui in m.units.items():
        dc = m_default_category(m, u)
        if dc is None or dc not in m.cats:
            continue
        try:
            q = ObtainQuantity(u)
            got = ("ok", q.GetCategory(), q.GetQuantityType(), q.GetCategoryInfo() is db.GetCategoryInfo(dc))
        except UnitsError as e:
            got = ("raises",)
        want = ("ok", dc, ui["qt"], True) if m.cats[dc]["qt"] == ui["qt"] else ("raises",)
        if got != want:
            return ("INV unit-only quantity does not reflect the registered category", u, got, want)
    # every (category name, unit symbol) of the pools is looked up after every step - also names that are not (yet)
    # registered: the verdict is the model's, whatever was asked (and refused) before
    decoy = _decoy_db()
    for ic, c in enumerate(POOL_CATEGORIES):
        for iu, u in enumerate(POOL_UNITS):
            # another database that answers the same names the other way round is asked first (for a third of the pairs):
            # its verdicts are its own
            if (ic + iu) % 3 == 0:
                try:
                    decoy.CheckCategoryUnit(c, u)
                except Exception:
                    pass
            try:
                db.CheckCategoryUnit(c, u)
                got = True
            except UnitsError:
                got = False
            want = c in m.cats and m.cats[c]["qt"] in m.qt and u in m.qt[m.cats[c]["qt"]]
            if got != want:
                return ("INV CheckCategoryUnit disagrees with the registrations", c, u, got, want)
    if list(db.IterCategories()) != list(m.cats):
        return ("categories", list(db.IterCategories()), list(m.cats))
    for c, ci in m.cats.items():
        info = db.GetCategoryInfo(c)
        got = (info.quantity_type, info.valid_units, info.default_unit, info.default_value, info.min_value, info.max_value, info.is_min_exclusive, info.is_max_exclusive)
        want = (ci["qt"], ci["vu"], ci["du"], ci["dv"], ci["mn"], ci["mx"], ci["me"], ci["xe"])
        if got != want:
            return ("category_info", c, got, want)
        if info.valid_units is not None and set(info.valid_units) != info.valid_units_set:
            return ("INV valid_units_set differs from valid_units", c)
        if db.GetDefaultUnit(c) != ci["du"] or db.GetDefaultValue(c) != ci["dv"] or db.GetCategoryQuantityType(c) != ci["qt"]:
            return ("category_getters", c)
        try:
            g = ("ok", list(db.GetValidUnits(c)))
        except UnitsError as e:
            g = ("raises", type(e).__name__)
        except RecursionError:
            return ("INV GetValidUnits does not terminate", c)
        if g[0] == "ok" and ci["qt"] in m.qt and any(u not in m.qt[ci["qt"]] for u in g[1]):
            return ("INV GetValidUnits names a unit outside the category's quantity type", c, g[1], ci["qt"])
        if g != ("ok", list(m_valid_units(m, c))):
            return ("valid_units", c, g, ("ok", list(m_valid_units(m, c))))
        if ci["qt"] not in m.qt:
            return ("INV category of an unknown quantity type", c, ci["qt"])
        if ci["du"] not in m.qt[ci["qt"]]:
            return ("INV default unit outside the quantity type", c, ci["du"])
        if ci["vu"] is not None and any(u not in m.qt[ci["qt"]] for u in ci["vu"]):
            return ("INV valid unit outside the quantity type", c, ci["vu"])
        if not within(ci["dv"], ci):
            return ("INV default value outside the limits", c, ci["dv"])
        try:
            s = Scalar(c)
            if not s.IsValid():
                return ("INV Scalar(category) is not valid", c, repr(s))
            if s.GetUnit() != ci["du"] or s.GetValue() != ci["dv"]:
                return ("Scalar(category) differs from the defaults", c, repr(s))
        except Exception as e:
            return ("INV Scalar(category) cannot be built", c, type(e).__name__, str(e)[:80])
        for u in m.qt[ci["qt"]]:
            try:
                s = Scalar(1.0, u, c)
                if s.GetQuantity().GetCategoryInfo() is not info:
                    return ("INV Scalar(1, unit, category) holds a stale category definition", u, c)
                s.GetValidUnits()
            except Exception as e:
                return ("INV Scalar(1, unit, category) cannot be built or used", u, c, type(e).__name__, str(e)[:80])
    return None


def real_apply(db, op):
    if op[0] == "base":
        db.AddUnitBase(op[1], op[2], op[3])
    elif op[0] == "unit":
        fb = CALLABLES.get(op[4], op[4]) if isinstance(op[4], str) else op[4]
        tb = CALLABLES.get(op[5], op[5]) if isinstance(op[5], str) else op[5]
        db.AddUnit(op[1], op[2], op[3], fb, tb, default_category=op[6])
    else:
        db.AddCategory(op[1], **copy.deepcopy(op[2]))


def run_history(ctx, seq, fail):
    """Run one history on a fresh database next to the model. `fail(key, case, msg)` reports."""
    from barril.units import UnitDatabase

    db = UnitDatabase()
    flags = set()
    with env.pushed(db):
        m = Model()
        for step, op in enumerate(seq):
            before = snapshot.registry(db)
            mb = m.clone()
            acc = model_apply(m, op)
            if not acc:
                m = mb
                flags.add("rejection")
            if op[0] == "cat" and op[2].get("override"):
                flags.add("override")
            if op[0] == "unit" and acc and not any(m.units[u]["base"] for u in m.qt[op[1]]):
                flags.add("unit_before_base")
            ctx.ev()
            try:
                real_apply(db, op)
                real = True
                exc = None
            except Exception as e:
                if core.tree_frame(e) is None and not isinstance(e, (AssertionError, TypeError, ValueError, RuntimeError, KeyError)):
                    raise
                real = False
                exc = e
            case = {"ops": seq[: step + 1]}
            kind = op[0] if op[0] != "cat" else "cat:" + ",".join(sorted(op[2]))
            if real != acc:
                fail(
                    "accept_reject_differs:%s:%s" % (kind, "accepted" if real else "rejected"),
                    case,
                    "step %d %r: the registry %s it%s, the reference model %s it" % (step, op, "accepted" if real else "rejected", "" if real else " (%s: %s)" % (type(exc).__name__, str(exc)[:100]), "accepts" if acc else "rejects"),
                )
                return flags
            if not real:
                after = snapshot.registry(db)
                if after != before:
                    fail("rejected_registration_changed_registry:%s" % kind, case, "step %d %r raised %s but changed the registry: %s" % (step, op, type(exc).__name__, snapshot.diff(before, after)))
                    return flags
            d = observe(db, m)
            if d is not None:
                fail("registry_%s" % str(d[0]).replace(" ", "_"), case, "after step %d %r: %r" % (step, op, d))
                return flags
    return flags


# =============================================================================================
# static sweep of the shipped databases


def static_sweep(ctx, kind):
    from barril.units import Scalar

    db = env.new_db(kind)
    with env.pushed(db):
        seen = collections.Counter()
        for qt, infos in db.quantity_types.items():
            ctx.ev()
            if not infos:
                ctx.record("shipped:%s:empty_quantity_type:%s" % (kind, qt), {"db": kind, "qt": qt}, "quantity type %r has no units" % qt)
                continue
            b = infos[0]
            probe = [b.tobase(x) == x and b.frombase(x) == x for x in (0.0, 1.0, -3.5, 1e6)]
            if not all(probe):
                ctx.record("shipped:%s:no_identity_base:%s" % (kind, qt), {"db": kind, "qt": qt}, "quantity type %r: first-listed unit %r is not an identity base (tobase(1)=%r)" % (qt, b.unit, b.tobase(1.0)))
            if db.GetBaseUnit(qt) != b.unit:
                ctx.record("shipped:%s:base_unit_getter:%s" % (kind, qt), {"db": kind, "qt": qt}, "GetBaseUnit(%r)=%r" % (qt, db.GetBaseUnit(qt)))
            for i in infos:
                seen[i.unit] += 1
                if i.quantity_type != qt or db.unit_to_unit_info.get(i.unit) is not i:
                    ctx.record("shipped:%s:unit_index_inconsistent:%s" % (kind, i.unit), {"db": kind, "u": i.unit}, "unit %r listed under %r, index says %r" % (i.unit, qt, getattr(db.unit_to_unit_info.get(i.unit), "quantity_type", None)))
                if i.default_category is not None:
                    ctx.ev()
                    if kind != "posc_nocat" and (not db.IsValidCategory(i.default_category) or db.GetCategoryQuantityType(i.default_category) != qt):
                        ctx.record("shipped:%s:dangling_default_category:%s" % (kind, i.unit), {"db": kind, "u": i.unit}, "unit %r names default category %r (registered: %r)" % (i.unit, i.default_category, db.IsValidCategory(i.default_category)))
        for u, n in seen.items():
            if n != 1:
                ctx.record("shipped:%s:symbol_in_several_types:%s" % (kind, u), {"db": kind, "u": u}, "symbol %r is listed %d times" % (u, n))
        if set(seen) != set(db.unit_to_unit_info):
            ctx.record("shipped:%s:unit_index_differs" % kind, {"db": kind}, "unit index and quantity-type lists differ")
        ncat = 0
        for c in db.IterCategories():
            info = db.GetCategoryInfo(c)
            ncat += 1
            ctx.ev()
            qt = info.quantity_type
            if qt not in db.quantity_types:
                ctx.record("shipped:%s:category_of_unknown_type:%s" % (kind, c), {"db": kind, "c": c}, "category %r refers to quantity type %r" % (c, qt))
                continue
            units = db.GetUnits(qt)
            ci = dict(mn=info.min_value, mx=info.max_value, me=info.is_min_exclusive, xe=info.is_max_exclusive)
            if info.default_unit not in units:
                ctx.record("shipped:%s:default_unit_outside_type:%s" % (kind, c), {"db": kind, "c": c}, "category %r default unit %r is not a unit of %r" % (c, info.default_unit, qt))
            if info.valid_units is not None and any(u not in units for u in info.valid_units):
                ctx.record("shipped:%s:valid_unit_outside_type:%s" % (kind, c), {"db": kind, "c": c}, "category %r valid units %r" % (c, [u for u in info.valid_units if u not in units]))
            if not within(info.default_value, ci):
                ctx.record("shipped:%s:default_value_outside_limits:%s" % (kind, c), {"db": kind, "c": c}, "category %r default value %r" % (c, info.default_value))
            try:
                s = Scalar(c)
                if not s.IsValid():
                    ctx.record("shipped:%s:default_scalar_invalid:%s" % (kind, c), {"db": kind, "c": c}, "Scalar(%r) = %r is not valid" % (c, s))
                db.GetValidUnits(c)
            except Exception as e:
                ctx.record("shipped:%s:scalar_of_category_fails:%s" % (kind, c), {"db": kind, "c": c}, "Scalar(%r) / GetValidUnits raised %s: %s" % (c, type(e).__name__, str(e)[:100]))
            for u in units:
                ctx.ev()
                try:
                    Scalar(1.0, u, c)
                except Exception as e:
                    ctx.record("shipped:%s:scalar_of_unit_and_category_fails:%s" % (kind, c), {"db": kind, "c": c, "u": u}, "Scalar(1, %r, %r) raised %s" % (u, c, type(e).__name__))
                    break
        ctx.cls("shipped_%s_units" % kind, len(seen))
        ctx.cls("shipped_%s_categories" % kind, ncat)
        ctx.exhaustive["shipped database %s: every quantity type, unit and category" % kind] = "all"


# =============================================================================================


def gen_op():
    qts = st.sampled_from(["L", "T", "M"])
    # (the last two are symbols of their own that merely contain a legacy fragment: registered as written, they are
    # units like any other)
    syms = st.sampled_from(["m", "cm", "km", "s", "min", "kg", "lbmol", "g", "m", "cm", "s", "lbmole(lab)", "1000m3(st)"])
    forms = st.sampled_from([("%f*100.0", "%f/100.0"), ("@k1", "@k2"), ("x/60.0", "x*60.0"), ("%f", "%f"), ("%f*", "%f"), ("2.0", "%f"), ("%s - 273.15", "%s + 273.15")])
    cats = st.sampled_from(["L", "T", "depth", "x", "y", "M"])
    legacy_or_sym = st.one_of(syms, st.just("lbmole"))
    base = st.tuples(st.just("base"), qts, st.just("n"), syms).map(list)
    unit = st.tuples(st.just("unit"), qts, st.sampled_from(["n1", "n2"]), syms, forms, st.one_of(st.none(), cats)).map(lambda t: ["unit", t[1], t[2], t[3], t[4][0], t[4][1], t[5]])
    lim = st.one_of(st.none(), st.sampled_from([0.0, 1.0, 5.0, 10.0, -1.0]))

    @st.composite
    def cat(draw):
        kw = {}
        mode = draw(st.sampled_from(["qt", "qt", "from", "both", "none"]))
        if mode in ("qt", "both"):
            # (also names that are categories, not quantity types: refused)
            kw["quantity_type"] = draw(st.one_of(qts, qts, st.sampled_from(["Q", "depth", "x"])))
        if mode in ("from", "both"):
            kw["from_category"] = draw(cats)
        if draw(st.booleans()):
            kw["override"] = True
        if draw(st.integers(0, 2)) == 0:
            kw["valid_units"] = draw(st.lists(legacy_or_sym, min_size=0, max_size=3))
        if draw(st.integers(0, 2)) == 0:
            kw["default_unit"] = draw(legacy_or_sym)
        for k in ("min_value", "max_value", "default_value"):
            v = draw(lim)
            if v is not None:
                kw[k] = v
        if "default_value" in kw and draw(st.integers(0, 3)) == 0:
            # a default a hair outside an (inclusive or exclusive) limit is outside
            kw["default_value"] = kw["default_value"] + draw(st.sampled_from([4e-7, -4e-7, 3e-10, -3e-10]))
        if draw(st.integers(0, 4)) == 0:
            kw["is_min_exclusive"] = True
        if draw(st.integers(0, 4)) == 0:
            kw["is_max_exclusive"] = True
        if mode == "none":
            kw.pop("quantity_type", None)
            kw["from_category"] = draw(cats)
        return ["cat", draw(cats), kw]

    return st.one_of(st.sampled_from(OPS), st.sampled_from(OPS), base, unit, cat(), cat())


def run_shard(spec, ctx):
    tier = spec["tier"]
    if spec["part"] == "static":
        for kind in ("posc", "posc_nocat", "simple"):
            static_sweep(ctx, kind)
        return
    if spec["part"] == "exhaustive":
        depth = 4 if tier == "quick" else 5
        nops = len(OPS)
        total = 0

        def rec(key, case, msg):
            ctx.record(key, case, msg)

        def run_all(L, slice_mod=None, slice_rem=0):
            nonlocal total
            k = 0
            for idx in itertools.product(range(nops), repeat=L):
                k += 1
                if k % spec["n"] != spec["i"]:
                    continue
                if slice_mod and (k // spec["n"]) % slice_mod != slice_rem:
                    continue
                if total % 512 == 0 and ctx.out_of_time():
                    return
                seq = [OPS[j] for j in idx]
                flags = run_history(ctx, seq, rec)
                total += 1
                if flags:
                    ctx.nt_disjoint += 1
                for f in flags:
                    ctx.cls("histories_with_" + f)
                if total % 4001 == 0 and len(ctx.samples) < 4:
                    ctx.sample({"ops": seq})

        if spec["i"] == 0:
            # a legacy spelling first in valid_units, no default unit, the base unit not listed: the default unit is derived
            # from the list *as rewritten*; copies made with from_category inherit it
            pre = [OPS[0], OPS[1], OPS[7]]
            for vu in (["lbmole"], ["lbmole", "cm"], ["cm", "lbmole"], ["lbmole", "m"]):
                for tail in ([], [["cat", "lcopy", {"from_category": "lderived"}]], [["cat", "lcopy", {"from_category": "lderived", "override": True, "valid_units": ["lbmole"]}]]):
                    run_history(ctx, pre + [["cat", "lderived", {"quantity_type": "L", "valid_units": list(vu)}]] + tail, rec)
                    total += 1
                    ctx.cls("histories_with_default_unit_derived_from_legacy_spelling")
            # default values exactly on, and a hair beside, inclusive and exclusive limits (the comparison is exact)
            for e in EDGE_CATS:
                for prefix in ([OPS[0]], [OPS[0], OPS[9], OPS[11]]):
                    flags = run_history(ctx, prefix + [e], rec)
                    total += 1
                    ctx.cls("histories_with_default_value_at_a_limit")
        if spec["i"] == 0:
            # categories that carry the name of a quantity type - their own, or another one's - in every order, with
            # and without valid units of their own, and categories of those types next to them: valid units and
            # verdicts follow the category's quantity type, never the name
            named = []
            for own_vu in (None, ["cm"], ["min"]):
                for nm, qt in (("L", "L"), ("L", "T"), ("T", "L"), ("T", "T")):
                    kw = {"quantity_type": qt}
                    if own_vu is not None:
                        if (own_vu == ["cm"]) != (qt == "L"):
                            continue
                        kw["valid_units"] = list(own_vu)
                    named.append(["cat", nm, kw])
            # (the last four name a *category* where a quantity type is expected: refused, in every argument form)
            users = [
                ["cat", "x", {"quantity_type": "L"}],
                ["cat", "y", {"quantity_type": "T"}],
                ["cat", "z", {"from_category": "L"}],
                ["cat", "r1", {"quantity_type": "x", "default_unit": "m"}],
                ["cat", "r2", {"quantity_type": "x"}],
                ["cat", "r3", {"quantity_type": "y", "valid_units": ["min"]}],
                ["cat", "r4", {"quantity_type": "y", "valid_units": ["s"], "default_unit": "s", "default_value": 1.0}],
            ]
            pre = [OPS[0], OPS[1], OPS[3], OPS[4]]  # m, cm | s, min
            import itertools as _it
            for a, b in _it.permutations(named, 2):
                for order in (0, 1, 2):
                    seq = {0: [a, b] + users, 1: users[:2] + [a, b] + users[2:], 2: [a] + users + [b]}[order]
                    run_history(ctx, pre + seq, rec)
                    total += 1
                    ctx.cls("histories_with_a_category_named_after_a_quantity_type")
        if spec["i"] == 0:
            # symbols that merely contain a legacy fragment, registered as a unit or as a base unit, alone or next to
            # the symbol the rewrite would turn them into: they are units like any other
            for sym, rewritten in (("lbmole(lab)", "lbmol(lab)"), ("1000m3(st)", "Mm3(st)")):
                for hist in (
                    [["base", "L", "metre", "m"], ["cat", "L", {"quantity_type": "L"}], ["unit", "L", "n1", sym, "%f*100.0", "%f/100.0", None]],
                    [["base", "L", "metre", "m"], ["unit", "L", "n1", sym, "%f*100.0", "%f/100.0", None], ["cat", "L", {"quantity_type": "L"}], ["cat", "depth", {"quantity_type": "L", "valid_units": [sym], "default_unit": sym}]],
                    [["base", "T", "n", sym], ["cat", "T", {"quantity_type": "T"}], ["unit", "T", "n2", "s", "%f*2.0", "%f/2.0", None]],
                    [["base", "L", "metre", "m"], ["cat", "L", {"quantity_type": "L"}], ["unit", "L", "n1", sym, "%f*100.0", "%f/100.0", None], ["unit", "L", "n2", rewritten, "%f*7.0", "%f/7.0", None]],
                    [["base", "L", "metre", "m"], ["cat", "L", {"quantity_type": "L"}], ["unit", "L", "n2", rewritten, "%f*7.0", "%f/7.0", None], ["unit", "L", "n1", sym, "%f*100.0", "%f/100.0", None]],
                ):
                    run_history(ctx, hist, rec)
                    total += 1
                    ctx.cls("histories_with_a_symbol_containing_a_legacy_fragment")
        for L in range(1, depth + 1):
            run_all(L)
        ctx.exhaustive["registration histories over the %d-call alphabet" % nops] = "all of length <= %d" % depth
        if tier == "thorough":
            run_all(6, slice_mod=48, slice_rem=spec["seed"] % 48)
            ctx.exhaustive["registration histories of length 6"] = "seed-selected 1/48 slice"
        ctx.cls("histories_enumerated", total)
        return

    def mk():
        @given(st.lists(gen_op(), min_size=3, max_size=30))
        def test(seq):
            def fail(key, case, msg):
                ctx.fail(key, case, msg)

            flags = run_history(ctx, seq, fail)
            ctx.cls("random_histories")
            if flags:
                ctx.nontrivial(("random", repr(seq)), {"ops": seq} if len(ctx.samples) < 6 else None)

        return test

    core.hunt(ctx, mk, spec["seed"] * 1000 + spec["shard"], spec["examples"])


def replay(case, ctx):
    if "db" in case:
        static_sweep(ctx, case["db"])
        want = None
        return ["%s: %s" % (k, v["msg"]) for k, v in ctx.violations.items() if case.get("qt") in k or case.get("c", "\0") in k or case.get("u", "\0") in k]
    seq = [list(o) for o in case["ops"]]
    run_history(ctx, seq, ctx.record)
    return ["%s: %s" % (k, v["msg"]) for k, v in ctx.violations.items()]
