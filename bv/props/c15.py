"""C15 — queries are pure and caches are invisible."""
import copy

from hypothesis import given, strategies as st

from bv import core, env, snapshot
from bv.props import c14

PID = "C15"
RULE = (
    "Hypothesis generates interleavings (shrunk as one value) of read-only operations (registry getters, "
    "ObtainQuantity, Scalar/Array construction, GetValidUnits on the database and on objects, CheckCategoryUnit, "
    "Convert, arithmetic on simple and derived (power) quantities and on an operand that writes two categories of one quantity type in different units, IsValid, FindUnitCase, GetDefaultCategory), failing lookups (unknown unit, unit of another "
    "type, unknown category) and registrations (AddUnitBase, AddUnit, AddCategory new / overriding / with another "
    "quantity type / from_category) on a warm database - a small generated one, and the shipped POSC table plus "
    "generated registrations; another database that uses the same names with other meanings is alive and is asked every "
    "question first. Oracle (differential + invariant): the outcome of every operation (value repr or exception "
    "class) equals the outcome of the same operation asked first on a database freshly rebuilt from the accepted "
    "registrations; the full registry snapshot (all public getters, both conversion functions sampled) is identical "
    "before and after every read-only or failing step. Plus an exhaustive sweep of the shipped table: every category x (first and last listed unit, first and last unit of its type that is not listed) through the object-level uses (GetValidUnits of Scalar / Array / FixedArray / FractionScalar - the returned list is then edited by the caller -, IsValid, CreateCopy, ObtainQuantity, CheckCategoryUnit, +), after each of which the valid and default units of every category of that quantity type and the type's units read as before. Registrations include a unit whose symbol differs only by case from one that was looked up with FindUnitCase. Conversions of an ndarray-backed Array are questions too: asked twice they give the same answer and the ndarray holds the same numbers afterwards. Quantities are asked for with and without a caption; a category is registered for the first time after lookups in it failed. The verdict of the validating constructor of derived quantities is a query as well, asked after the same factors went through each route that does not validate. The scenario question - changing registration - same question is also enumerated without chance: 3 focus categories x 4 units x 8 registrations, each with the complete list of questions. Non-trivial = a query preceded by a failing lookup of the same "
    "key, by an object-level GetValidUnits, or by a later registration; key = (database kind, query kind, preceding event kind, category/unit asked)."
)
ASSUMPTIONS = ["quantities and value objects obtained before a registration keep what they captured (documented design); only fresh queries are compared"]
BUDGET_S = {"quick": 150, "thorough": 1500}
QTS = ["L", "T", "Q"]
UNITS = ["m", "cm", "km", "s", "min", "mm", "lbmol", "zz"]
CATS = ["L", "T", "depth", "x", "moles", "nope"]
POSC_UNITS = ["m", "cm", "km", "ft", "s", "min", "degC", "K", "psi", "Pa", "m2", "lbmol", "bvu", "zz"]
POSC_CATS = ["length", "depth", "time", "temperature", "pressure", "area", "bv cat", "bv lim", "nope"]
POSC_QTS = ["length", "time", "temperature", "pressure", "area", "bvq"]
POSC_REGS = [
    ["base", "bvq", "bv base", "bvb"],
    ["unit", "bvq", "bv unit", "bvu", "%f*10.0", "%f/10.0", None],
    ["unit", "length", "bv length unit", "bvu", "%f*3.0", "%f/3.0", None],
    ["unit", "length", "bv length unit 2", "bvl", "%f*4.0", "%f/4.0", None],
    ["cat", "bv cat", {"quantity_type": "length"}],
    ["cat", "bv cat", {"quantity_type": "time", "override": True}],
    ["cat", "bv cat", {"quantity_type": "bvq", "override": True}],
    ["cat", "bv lim", {"quantity_type": "length", "min_value": 0.0, "max_value": 10.0, "default_unit": "km", "default_value": 1.0, "valid_units": ["km", "m"]}],
    ["cat", "bv lim", {"from_category": "depth", "override": True}],
    ["cat", "depth", {"quantity_type": "length", "override": True, "valid_units": ["m", "ft"], "default_unit": "ft"}],
    ["cat", "depth", {"quantity_type": "time", "override": True}],
    ["cat", "bvq", {"quantity_type": "bvq"}],
]


def plan(tier, seed):
    specs = []
    for i in range(5 if tier == "quick" else 10):
        specs.append({"part": "small", "tier": tier, "seed": seed, "examples": 400 if tier == "quick" else 8000})
    for i in range(3 if tier == "quick" else 6):
        specs.append({"part": "posc", "tier": tier, "seed": seed, "examples": 120 if tier == "quick" else 2500})
    specs.append({"part": "sweep", "tier": tier, "seed": seed})
    return specs


def query(db, q):
    """Run one read-only (or failing) operation; returns a plain comparable outcome."""
    import numpy

    from barril.units import Array, ObtainQuantity, Scalar

    k = q[0]
    try:
        if k == "GetUnits":
            r = list(db.GetUnits(q[1]))
        elif k == "GetUnitNames":
            r = list(db.GetUnitNames(q[1]))
        elif k == "GetUnitsAll":
            r = sorted(db.GetUnits())
        elif k == "GetQuantityTypes":
            r = list(db.GetQuantityTypes())
        elif k == "GetValidUnits":
            r = list(db.GetValidUnits(q[1]))
        elif k == "GetDefaultUnit":
            r = db.GetDefaultUnit(q[1])
        elif k == "GetDefaultValue":
            r = db.GetDefaultValue(q[1])
        elif k == "GetDefaultCategory":
            r = db.GetDefaultCategory(q[1])
        elif k == "GetQuantityType":
            r = db.GetQuantityType(q[1])
        elif k == "GetBaseUnit":
            r = db.GetBaseUnit(q[1])
        elif k == "GetCategoryInfo":
            i = db.GetCategoryInfo(q[1])
            r = (i.quantity_type, i.valid_units, i.default_unit, i.default_value, i.min_value, i.max_value)
        elif k == "IsValidCategory":
            r = db.IsValidCategory(q[1])
        elif k == "CheckCategoryUnit":
            r = db.CheckCategoryUnit(q[1], q[2])
        elif k == "CheckQuantityTypeUnit":
            r = db.CheckQuantityTypeUnit(q[1], q[2])
        elif k == "FindUnitCase":
            r = db.FindUnitCase(q[1], q[2].upper())
        elif k == "GetInfo":
            r = db.GetInfo(q[1], q[2]).unit
        elif k == "ObtainQuantity":
            o = ObtainQuantity(q[2], q[1])
            r = (repr(o), o.GetQuantityType(), o.GetUnit())
        elif k == "ObtainQuantityCaption":
            o = ObtainQuantity(q[2], q[1], q[3])
            r = (repr(o), o.GetUnknownCaption(), o.GetUnitCaption(), repr(Scalar(o, 1.0)))
        elif k == "ObtainQuantityUnitOnly":
            o = ObtainQuantity(q[1])
            r = (repr(o), o.GetQuantityType())
        elif k == "Scalar":
            o = Scalar(2.5, q[2], q[1])
            r = (repr(o), o.GetQuantityType(), o.IsValid())
        elif k == "ScalarCategoryOnly":
            o = Scalar(q[1])
            r = (repr(o), o.IsValid())
        elif k == "ScalarUnitOnly":
            o = Scalar(5.0, q[1])
            i = o.GetQuantity().GetCategoryInfo()
            r = (repr(o), o.IsValid(), i.min_value, i.max_value, i.default_unit, list(o.GetValidUnits()))
        elif k == "ScalarGetValidUnits":
            r = list(Scalar(1.0, q[2], q[1]).GetValidUnits())
        elif k == "ArrayGetValidUnits":
            r = list(Array(numpy.array([1.0]), q[2], q[1]).GetValidUnits())
        elif k == "Convert":
            r = db.Convert(q[1], q[2], q[3], 3.5)
        elif k == "ConvertList":
            r = db.Convert(q[1], q[2], q[3], [1.0, 2.0])
        elif k == "ArrayGetValues":
            # a conversion is a question: the ndarray it is asked about holds the same numbers afterwards, and asking
            # twice gives the same answer
            vals = numpy.array([1.0, 2.0, -40.0])
            A = Array(vals, q[2], q[1])
            first = [float(t) for t in A.GetValues(q[3])]
            second = [float(t) for t in A.GetValues(q[3])]
            viaconvert = [float(t) for t in db.Convert(db.GetCategoryQuantityType(q[1]), q[2], q[3], numpy.array([1.0, 2.0, -40.0]))]
            r = (first, "asked again: same" if second == first else "asked again: %r" % second, "operand kept" if [float(t) for t in vals] == [1.0, 2.0, -40.0] and [float(t) for t in A.GetValues()] == [1.0, 2.0, -40.0] else "operand now %r" % [float(t) for t in vals], viaconvert == first)
        elif k == "GetValue":
            r = Scalar(3.5, q[2], q[1]).GetValue(q[3])
        elif k == "Add":
            r = repr(Scalar(1.0, q[2], q[1]) + Scalar(2.0, q[3]))
        elif k == "Multiply":
            r = repr(Scalar(2.0, q[2], q[1]) * Scalar(3.0, q[3]))
        elif k == "AddPow":
            r = repr(Scalar(1.0, q[2], q[1]) ** q[4] + Scalar(2.0, q[3]) ** q[4])
        elif k == "MulPow":
            r = repr(Scalar(2.0, q[2], q[1]) * Scalar(3.0, q[3]) ** q[4])
        elif k == "DivPow":
            r = repr(Scalar(2.0, q[2], q[1]) / Scalar(3.0, q[3]) ** q[4])
        elif k == "MulRecipPow":
            r = repr(Scalar(2.0, q[2], q[1]) * (1.0 / Scalar(3.0, q[3]) ** q[4]))
        elif k == "ArrayMulPow":
            r = repr(Array(numpy.array([2.0, 4.0]), q[2], q[1]) * (Array([3.0, 5.0], q[3]) * Array((1.0, 2.0), q[3])))
        elif k == "AddMixed":
            # the left operand writes two categories (of one quantity type, when the draw allows) in different units:
            # the sum matches them to each other, and the quantity - shared through the cache - reads the same afterwards
            from collections import OrderedDict

            qa = ObtainQuantity(OrderedDict([(q[1], [q[2], 1]), (q[3], [q[4], 1])]))
            a = Scalar.CreateWithQuantity(qa, 1.0)
            b = Scalar(1.0, q[2], q[1]) * Scalar(1.0, q[2], q[1])
            r = (repr(a + b), repr(a - b), repr(list(qa.GetCategoryToUnitAndExps().items())), qa.GetUnit(), repr(a * b))
        elif k == "CreateDerived":
            # the validating constructor of derived quantities: its verdict is a lookup like any other
            from collections import OrderedDict

            from barril.units import Quantity

            o = Quantity.CreateDerived(OrderedDict([(q[1], [q[2], q[5]]), (q[3], [q[4], -1])]))
            r = (repr(o), o.GetUnit(), o.GetQuantityType())
        elif k == "DerivedUnchecked":
            # the same factors through the routes that, by design, do not validate (dict form, MakeCopy, CreateCopyInstance)
            from collections import OrderedDict

            from barril.units import Quantity

            spec = OrderedDict([(q[1], [q[2], q[5]]), (q[3], [q[4], -1])])
            if q[6] == 0:
                o = ObtainQuantity(spec)
            elif q[6] == 1:
                o = Quantity.CreateEmpty().MakeCopy(spec)
            else:
                o = Quantity.CreateEmpty().CreateCopyInstance(spec)
            r = (repr(o), o.GetUnit())
        elif k == "IsValid":
            r = (Scalar(q[3], q[2], q[1]).IsValid(), Array([q[3], 1.0], q[2], q[1]).IsValid())
        elif k == "CheckValueForCategory":
            r = db.CheckValueForCategory(q[1], q[3], q[2])
        elif k == "CreateCopy":
            r = repr(Scalar(1.0, q[2], q[1]).CreateCopy(unit=q[3]))
        else:
            raise core.HarnessError("unknown query %r" % (q,))
        return ("ok", repr(r))
    except core.HarnessError:
        raise
    except Exception as e:
        if core.tree_frame(e) is None and not isinstance(e, (AssertionError, TypeError, ValueError, KeyError)):
            raise
        return ("raises", type(e).__name__)


READ_ONLY_KEYS = {"ScalarGetValidUnits": "object_GetValidUnits", "ArrayGetValidUnits": "object_GetValidUnits"}


class Machine:
    def __init__(self, ctx, base_kind, case):
        self.ctx = ctx
        self.base_kind = base_kind
        self.case = case
        self.regs = []
        self.warm = self.fresh()
        self.fresh_db = None
        self.fresh_snap = None
        self.history = {}  # key of query -> set of preceding event kinds
        self.events = []
        self.decoy = self.make_decoy()

    def make_decoy(self):
        """another database alive at the same time that uses the same names with other meanings; it is asked
        every question first - its answers must leave no trace in the warm database"""
        from barril.units import UnitDatabase

        d = UnitDatabase()
        if self.base_kind == "small":
            regs = [
                ["base", "L", "second", "s"], ["unit", "L", "minute", "min", "x/60.0", "x*60.0", None], ["unit", "L", "zz unit", "zz", "%f*3.0", "%f/3.0", None],
                ["base", "T", "metre", "m"], ["unit", "T", "centimetre", "cm", "%f*100.0", "%f/100.0", None], ["unit", "T", "kilometre", "km", "@k1", "@k2", None], ["unit", "T", "mm", "mm", "%f*1000.0", "%f/1000.0", None],
                ["cat", "L", {"quantity_type": "L"}], ["cat", "T", {"quantity_type": "T"}], ["cat", "depth", {"quantity_type": "L", "min_value": 5.0, "default_value": 6.0}],
                ["cat", "x", {"quantity_type": "T"}], ["cat", "moles", {"quantity_type": "T"}], ["cat", "nope", {"quantity_type": "L"}],
            ]
        else:
            regs = [
                ["base", "length", "second", "s"], ["unit", "length", "minute", "min", "x/60.0", "x*60.0", None], ["unit", "length", "zz unit", "zz", "%f*3.0", "%f/3.0", None], ["unit", "length", "bvu", "bvu", "%f*7.0", "%f/7.0", None],
                ["base", "time", "metre", "m"], ["unit", "time", "centimetre", "cm", "%f*100.0", "%f/100.0", None], ["unit", "time", "kilometre", "km", "@k1", "@k2", None], ["unit", "time", "foot", "ft", "%f*2.0", "%f/2.0", None],
                ["base", "temperature", "pascal", "Pa", ], ["unit", "temperature", "psi", "psi", "%f*2.0", "%f/2.0", None],
                ["base", "pressure", "kelvin", "K"], ["unit", "pressure", "celsius", "degC", "%f-1.0", "%f+1.0", None],
                ["cat", "length", {"quantity_type": "length"}], ["cat", "depth", {"quantity_type": "time"}], ["cat", "time", {"quantity_type": "time"}],
                ["cat", "temperature", {"quantity_type": "temperature"}], ["cat", "pressure", {"quantity_type": "pressure"}], ["cat", "bv cat", {"quantity_type": "temperature"}], ["cat", "nope", {"quantity_type": "length"}],
            ]
        for r in regs:
            c14.real_apply(d, r)
        return d

    def fresh(self):
        from barril.units import UnitDatabase

        if self.base_kind == "small":
            db = UnitDatabase()
        else:
            db = env.new_db("posc")
        for op in self.regs:
            c14.real_apply(db, op)
        return db

    def get_fresh(self):
        """a database freshly rebuilt from the accepted registrations (POSC base: reused only while
        its full snapshot still equals the one taken when it was built, with both caches cleared)"""
        if self.base_kind == "small":
            return self.fresh()
        if self.fresh_db is not None and snapshot.registry_light(self.fresh_db) == self.fresh_snap and env.clear_caches(self.fresh_db):
            return self.fresh_db
        self.fresh_db = self.fresh()
        self.fresh_snap = snapshot.registry_light(self.fresh_db)
        return self.fresh_db

    def step(self, i, op):
        ctx = self.ctx
        if op[0] == "reg":
            r = op[1]
            before = snapshot.registry(self.warm)
            ctx.ev()
            try:
                with env.pushed(self.warm):
                    c14.real_apply(self.warm, r)
                ok = True
            except Exception as e:
                if core.tree_frame(e) is None and not isinstance(e, (AssertionError, TypeError, ValueError, RuntimeError, KeyError)):
                    raise
                ok = False
            if ok:
                self.regs.append(copy.deepcopy(r))
                self.fresh_db = None
                self.events.append(("registration", r[0], r[1] if r[0] == "cat" else r[3]))
                ctx.cls("registrations_accepted")
            else:
                ctx.cls("registrations_rejected")
                if snapshot.registry(self.warm) != before:
                    ctx.fail("rejected_registration_changed_registry", self.case, "step %d %r was rejected but changed the registry: %s" % (i, r, snapshot.diff(before, snapshot.registry(self.warm))))
            return
        q = op[1]
        # small databases: the full snapshot around every step; POSC base: a structural fingerprint around every
        # step and the full snapshot against a fresh rebuild at the end of the sequence (run())
        snap = snapshot.registry if self.base_kind == "small" else snapshot.registry_light
        with env.pushed(self.decoy):
            query(self.decoy, q)  # outcome irrelevant
        before = snap(self.warm)
        ctx.ev()
        with env.pushed(self.warm):
            got = query(self.warm, q)
        after = snap(self.warm)
        kind = q[0]
        if after != before:
            ctx.fail("query_changed_registry:%s" % kind, self.case, "step %d %r (%s) changed what the database reports: %s" % (i, q, got[0], snapshot.diff(before, after) if self.base_kind == "small" else "structural fingerprint differs"))
        F = self.get_fresh()
        with env.pushed(F):
            want = query(F, q)
        if kind == "ArrayGetValues" and got[0] == "ok" and ("operand now" in got[1] or "asked again: [" in got[1]):
            ctx.fail("query_changed_its_operand_or_its_own_answer:%s" % kind, self.case, "step %d %r: %s" % (i, q, got[1]))
        if got != want:
            prev = sorted(set(e[0] for e in self.events)) or ["nothing"]
            hint = "after_registration" if any(e[0] == "registration" for e in self.events) else "after_queries_only"
            ctx.fail(
                "warm_differs_from_fresh:%s:%s:%s_vs_%s" % (kind, hint, got[0], want[0]),
                self.case,
                "step %d %r: the warm database answers %r, a database freshly rebuilt from the %d accepted registrations answers %r (earlier events: %s)" % (i, q, got, len(self.regs), want, prev),
            )
        # bookkeeping for the non-triviality rule
        key = tuple(q[1:3])
        pre = self.history.setdefault(key, set())
        if pre or any(e[0] == "registration" for e in self.events):
            for p in sorted(pre | ({"later_registration"} if any(e[0] == "registration" for e in self.events) else set())):
                ctx.nontrivial((self.base_kind, kind, p) + tuple(q[1:3]), {"query": q, "preceded_by": p, "outcome": got} if len(ctx.samples) < 8 else None)
        if got[0] == "raises":
            pre.add("failed_lookup")
            self.events.append(("failed_lookup", kind))
        if kind in READ_ONLY_KEYS:
            self.history.setdefault((q[1],), set()).add("object_GetValidUnits")
            pre.add("object_GetValidUnits")
        ctx.cls("query_%s" % got[0])

    def run(self, ops):
        for i, op in enumerate(ops):
            self.step(i, op)
        if self.base_kind != "small":
            self.ctx.ev()
            w, f = snapshot.registry(self.warm), snapshot.registry(self.fresh())
            if w != f:
                self.ctx.fail("registry_differs_from_fresh_rebuild_after_sequence", self.case, "after the sequence the warm database reports something else than a fresh rebuild: %s" % snapshot.diff(f, w))
        self.ctx.cls("sequences_%s" % self.base_kind)
        if len(self.ctx.samples) < 3 and len(self.regs) >= 2:
            self.ctx.sample({"base": self.base_kind, "ops": ops[:12]})


def seq_strategy(base_kind, max_len):
    """Sequences biased towards one focus (category, units, quantity type) so that a query, the event that
    should change its answer (a failing lookup, an object-level GetValidUnits, a registration) and the same
    query again meet in one history; small databases start from a sensible prefix most of the time."""
    if base_kind == "small":
        qts, units, cats = QTS, UNITS, CATS
        reg_pool = st.one_of(st.sampled_from(c14.OPS), c14.gen_op())
        prefix_pool = [["base", "L", "metre", "m"], ["base", "T", "second", "s"], ["cat", "L", {"quantity_type": "L"}], ["cat", "depth", {"quantity_type": "L"}], ["unit", "L", "kilometre", "km", "@k1", "@k2", None]]
    else:
        qts, units, cats = POSC_QTS, POSC_UNITS, POSC_CATS
        reg_pool = st.sampled_from(POSC_REGS)
        prefix_pool = []

    @st.composite
    def seq(draw):
        fc = draw(st.sampled_from(cats))
        fu = draw(st.sampled_from(units))
        fu2 = draw(st.sampled_from(units))
        ft = draw(st.sampled_from(qts))
        u = st.sampled_from([fu, fu, fu2, fu2] + units)
        c = st.sampled_from([fc, fc, fc] + cats)
        t = st.sampled_from([ft, ft] + qts)
        x = st.sampled_from([0.0, 1.0, 5.0, 11.0, -1.0])
        queries = st.one_of(
            st.tuples(st.sampled_from(["GetUnits", "GetBaseUnit"]), t),
            st.tuples(st.sampled_from(["GetUnits", "GetBaseUnit", "GetUnitNames"]), st.one_of(t, c)),
            st.tuples(st.sampled_from(["GetValidUnits", "GetDefaultUnit", "GetDefaultValue", "GetCategoryInfo", "IsValidCategory", "ScalarCategoryOnly"]), c),
            st.tuples(st.sampled_from(["GetDefaultCategory", "GetQuantityType", "ObtainQuantityUnitOnly", "ScalarUnitOnly"]), u),
            st.tuples(st.sampled_from(["CheckCategoryUnit", "FindUnitCase", "ObtainQuantity", "Scalar", "ScalarGetValidUnits", "ArrayGetValidUnits"]), c, u),
            st.tuples(st.sampled_from(["CheckCategoryUnit", "ObtainQuantity", "Scalar", "ScalarGetValidUnits"]), c, u),
            st.tuples(st.sampled_from(["CheckQuantityTypeUnit", "GetInfo"]), st.one_of(t, c), u),
            st.tuples(st.sampled_from(["Convert", "ConvertList"]), st.one_of(t, c), u, u),
            st.tuples(st.sampled_from(["GetValue", "Add", "Multiply", "CreateCopy", "ArrayGetValues"]), c, u, u),
            st.tuples(st.sampled_from(["IsValid", "CheckValueForCategory"]), c, u, x),
            st.tuples(st.just("ObtainQuantityCaption"), c, u, st.sampled_from(["", "Measured Depth", "cap"])),
            st.tuples(st.sampled_from(["AddPow", "MulPow", "DivPow", "MulRecipPow", "ArrayMulPow"]), c, u, u, st.sampled_from([2, 3, 2])),
            st.tuples(st.just("AddMixed"), c, u, c, u),
            st.tuples(st.just("CreateDerived"), c, u, c, u, st.sampled_from([1, 2])),
            st.tuples(st.just("DerivedUnchecked"), c, u, c, u, st.sampled_from([1, 2]), st.sampled_from([0, 1, 2])),
            st.sampled_from([("AddMixed", "L", "m", "depth", "km"), ("AddMixed", "depth", "cm", "L", "m")] if base_kind == "small" else [("AddMixed", "length", "m", "depth", "km"), ("AddMixed", "liquid volume", "m3", "gas volume", "ft3"), ("AddMixed", "depth", "cm", "length", "m")]),
            st.sampled_from([("ArrayGetValues", "L", "m", "km"), ("ArrayGetValues", "depth", "km", "m")] if base_kind == "small" else [("ArrayGetValues", "temperature", "degC", "K"), ("ArrayGetValues", "temperature", "K", "degF"), ("ArrayGetValues", "pressure", "psi", "Pa"), ("ArrayGetValues", "length", "ft", "m")]),
            st.just(("GetQuantityTypes",)),
            st.just(("GetUnitsAll",)),
        ).map(list)
        # registrations that touch the focus
        focus_regs = []
        if base_kind == "small":
            focus_regs = [
                ["unit", ft if ft != "Q" else "L", "focus unit", fu, "%f*100.0", "%f/100.0", None],
                ["base", ft if ft != "Q" else "L", "focus base", fu2],
                # a unit whose symbol differs from the focus unit's only by case (FindUnitCase must then see both)
                ["unit", ft if ft != "Q" else "L", "case twin", fu.upper() if fu.upper() != fu else fu.capitalize(), "%f*7.0", "%f/7.0", None],
                ["unit", "L", "case twin of km", "Km", "%f*7.0", "%f/7.0", None],
                ["cat", fc, {"quantity_type": ft if ft != "Q" else "L"}],
                ["cat", fc, {"quantity_type": "T", "override": True}],
                ["cat", fc, {"quantity_type": "L", "override": True, "valid_units": ["m"], "default_unit": "m", "min_value": 0.0, "max_value": 10.0}],
                ["cat", fc, {"quantity_type": "L", "override": True}],
                ["cat", fc, {"from_category": "L", "override": True, "min_value": 2.0, "default_value": 3.0}],
            ]
        regs = st.one_of(reg_pool, st.sampled_from(focus_regs)) if focus_regs else reg_pool
        op = st.one_of(queries.map(lambda q: ["query", q]), queries.map(lambda q: ["query", q]), regs.map(lambda r: ["reg", r]))
        if base_kind == "small" and draw(st.integers(0, 3)) == 0:
            # scenario: the same question before and after the registration that should change its answer
            c0 = draw(st.sampled_from(["L", "depth", "x"]))  # ('x' is not registered by the prefix: lookups fail first)
            u0 = draw(st.sampled_from(["cm", "km", "lbmol", "mm"]))
            kinds2 = ["CheckCategoryUnit", "ObtainQuantity", "Scalar", "ScalarGetValidUnits", "ArrayGetValidUnits", "FindUnitCase"]
            ask = [["query", [draw(st.sampled_from(kinds2)), c0, u0]] for _ in range(draw(st.integers(1, 2)))]
            ask += [["query", [draw(st.sampled_from(["Convert", "GetValue", "CreateCopy"])), c0, "m", u0]]] * draw(st.integers(0, 1))
            ask += [["query", ["FindUnitCase", c0, draw(st.sampled_from(["km", u0]))]]] * draw(st.integers(0, 1))
            ask += [["query", ["ObtainQuantityCaption", c0, "m", draw(st.sampled_from(["", "cap"]))]], ["query", ["ObtainQuantityCaption", c0, "m", "cap"]]] * draw(st.integers(0, 1))
            ask += [["query", ["CheckCategoryUnit", c0, "m"]], ["query", ["CheckCategoryUnit", c0, "km"]]]
            # the forms that leave the category out resolve it through the unit (separate cache keys)
            ask += [["query", [draw(st.sampled_from(["ScalarUnitOnly", "ObtainQuantityUnitOnly"])), draw(st.sampled_from(["m", u0]))]]]
            change = draw(
                st.sampled_from(
                    [
                        ["unit", "L", "late unit", u0, "%f*100.0", "%f/100.0", None],
                        ["cat", c0, {"quantity_type": "T", "override": True}],
                        ["cat", c0, {"quantity_type": "L", "override": True, "valid_units": ["m"], "default_unit": "m", "min_value": 0.0, "max_value": 2.0}],
                        ["cat", c0, {"quantity_type": "L", "override": True, "default_unit": "km"}],
                        # the category is registered (for 'x': for the first time) after it was asked about
                        ["cat", c0, {"quantity_type": "L"} if c0 == "x" else {"quantity_type": "L", "override": True}],
                        # a second unit whose symbol differs only by case from one that was looked up case-insensitively
                        ["unit", "L", "case twin", "Km", "%f*7.0", "%f/7.0", None],
                        ["unit", "L", "case twin", u0.capitalize(), "%f*7.0", "%f/7.0", None],
                    ]
                )
            )
            if draw(st.booleans()):
                e1, e2 = draw(st.sampled_from([(2, 3), (3, 2), (2, 2)]))
                k1, k2 = draw(st.sampled_from(["AddPow", "MulPow", "DivPow"])), draw(st.sampled_from(["AddPow", "MulPow", "DivPow"]))
                ask += [["query", [k1, c0, "m", "km", e1]], ["query", [k2, c0, "m", "km", e2]], ["query", [k2, c0, "km", "m", e1]], ["query", ["MulRecipPow", c0, "km", "m", e1]], ["query", ["MulRecipPow", c0, "m", "km", e2]]]
            noise1 = draw(st.lists(op, max_size=3))
            noise2 = draw(st.lists(op, max_size=3))
            pre = [["reg", copy.deepcopy(r)] for r in prefix_pool]
            ask += [["query", [draw(st.sampled_from(["GetUnits", "GetUnitNames", "GetValidUnits"])), draw(st.sampled_from([c0, "L"]))]]]
            again = copy.deepcopy(ask) + [["query", ["ScalarCategoryOnly", c0]], ["query", ["GetValidUnits", c0]], ["query", ["IsValid", c0, "m", 5.0]]]
            return pre + [["query", ["ScalarCategoryOnly", c0]], ["query", ["IsValid", c0, "m", 5.0]]] + ask + noise1 + [["reg", change]] + noise2 + again
        pre = []
        if prefix_pool and draw(st.integers(0, 4)) > 0:
            k = draw(st.integers(1, len(prefix_pool)))
            pre = [["reg", copy.deepcopy(r)] for r in prefix_pool[:k]]
        body = draw(st.lists(op, min_size=3, max_size=max_len))
        # repeat some earlier query at the end: the same question after whatever happened in between
        qs = [o for o in body if o[0] == "query"]
        if qs:
            body = body + [copy.deepcopy(draw(st.sampled_from(qs))) for _ in range(draw(st.integers(0, 3)))]
        return pre + body

    return seq()


def fixed_scenarios():
    """The scenario of seq_strategy without chance: for every focus category, unit and changing registration the
    complete list of questions, before and after the change (the random histories draw subsets of these; whether a
    particular triple is drawn within the tier's examples is luck)."""
    prefix = [["base", "L", "metre", "m"], ["base", "T", "second", "s"], ["cat", "L", {"quantity_type": "L"}], ["cat", "depth", {"quantity_type": "L"}], ["unit", "L", "kilometre", "km", "@k1", "@k2", None]]
    for c0 in ("L", "depth", "x"):
        for u0 in ("cm", "km", "lbmol", "mm"):
            changes = [
                ["unit", "L", "late unit", u0, "%f*100.0", "%f/100.0", None],
                ["cat", c0, {"quantity_type": "T", "override": True}],
                ["cat", c0, {"quantity_type": "L", "override": True, "valid_units": ["m"], "default_unit": "m", "min_value": 0.0, "max_value": 2.0}],
                ["cat", c0, {"quantity_type": "L", "override": True, "default_unit": "km"}],
                ["cat", c0, {"quantity_type": "L"} if c0 == "x" else {"quantity_type": "L", "override": True}],
                ["cat", c0, {"from_category": "L", "override": True, "min_value": 2.0, "default_value": 3.0}],
                ["unit", "L", "case twin", "Km", "%f*7.0", "%f/7.0", None],
                ["unit", "L", "case twin", u0.capitalize(), "%f*7.0", "%f/7.0", None],
            ]
            ask = [["query", [k, c0, u]] for k in ("CheckCategoryUnit", "ObtainQuantity", "Scalar", "ScalarGetValidUnits", "ArrayGetValidUnits", "FindUnitCase") for u in ("m", u0)]
            ask += [["query", [k, c0, "m", u0]] for k in ("Convert", "GetValue", "CreateCopy", "Add", "Multiply")]
            ask += [["query", ["ObtainQuantityCaption", c0, "m", cap]] for cap in ("", "cap")]
            ask += [["query", [k, u]] for k in ("ScalarUnitOnly", "ObtainQuantityUnitOnly", "GetDefaultCategory") for u in ("m", "km", u0)]
            ask += [["query", [k, c0, "m", "km", e]] for k in ("AddPow", "MulPow", "DivPow", "MulRecipPow") for e in (2, 3)]
            ask += [["query", [k, c]] for k in ("GetUnits", "GetUnitNames", "GetValidUnits", "GetDefaultUnit", "GetDefaultValue", "GetCategoryInfo", "ScalarCategoryOnly") for c in (c0, "L")]
            ask += [["query", ["IsValid", c0, "m", x]] for x in (1.0, 5.0)] + [["query", ["CheckValueForCategory", c0, "m", 5.0]]]
            for change in changes:
                yield [["reg", copy.deepcopy(r)] for r in prefix] + copy.deepcopy(ask) + [["reg", copy.deepcopy(change)]] + copy.deepcopy(ask)


def run_case(ctx, base_kind, ops):
    Machine(ctx, base_kind, {"base": base_kind, "ops": ops}).run(ops)


def sweep_case(ctx, db, c, u, role):
    """object-level use of one (category, unit) pair of the shipped table; what the database reports about the
    category, about the other categories of its quantity type and about the type itself is the same afterwards"""
    import numpy

    from barril.units import Array, FixedArray, FractionScalar, ObtainQuantity, Scalar

    qt = db.GetCategoryQuantityType(c)
    case = {"kind": "sweep", "category": c, "unit": u, "role": role}

    def report():
        cats = [k for k, i in db.categories_to_quantity_types.items() if i.quantity_type == qt]
        return [(k, list(db.GetValidUnits(k)), db.GetDefaultUnit(k)) for k in cats] + [("units", list(db.GetUnits(qt)))]

    before = report()
    light = snapshot.registry_light(db)
    uses = [
        ("Scalar.GetValidUnits", lambda: Scalar(1.0, u, c).GetValidUnits()),
        ("Array.GetValidUnits", lambda: Array(numpy.array([1.0]), u, c).GetValidUnits()),
        ("Array[list].GetValidUnits", lambda: Array([1.0, 2.0], u, c).GetValidUnits()),
        ("FixedArray.GetValidUnits", lambda: FixedArray(2, [1.0, 2.0], u, c).GetValidUnits()),
        ("FractionScalar.GetValidUnits", lambda: FractionScalar(1.0, u, c).GetValidUnits()),
        ("Scalar.IsValid", lambda: Scalar(1.0, u, c).IsValid()),
        ("Scalar.CreateCopy(unit)", lambda: Scalar(1.0, u, c).CreateCopy(unit=db.GetDefaultUnit(c))),
        ("ObtainQuantity", lambda: ObtainQuantity(u, c).GetUnitName()),
        ("CheckCategoryUnit", lambda: db.CheckCategoryUnit(c, u)),
        ("Scalar+Scalar", lambda: Scalar(1.0, u, c) + Scalar(c)),
    ]
    for name, fn in uses:
        ctx.ev()
        try:
            got = fn()
        except Exception as e:
            if core.tree_frame(e) is None:
                raise
            got = None
        if name.endswith("GetValidUnits") and got is not None:
            got.append("bv-caller-owned")
        after = report()
        if after != before or snapshot.registry_light(db) != light:
            d = [(a, b) for a, b in zip(before, after) if a != b][:1]
            ctx.record("query_changed_registry:sweep:%s:%s" % (name, role), case, "%s with category %r and unit %r (%s) changed what the database reports: %r" % (name, c, u, role, d))
            return
    ctx.nontrivial((c, u), case)


def run_sweep(spec, ctx):
    db = env.new_db("posc")
    with env.pushed(db):
        n = 0
        for c in sorted(db.IterCategories()):
            qt = db.GetCategoryQuantityType(c)
            if qt == "Unknown" or qt not in db.quantity_types:
                continue
            valid = list(db.GetValidUnits(c))
            units = list(db.GetUnits(qt))
            outside = [x for x in units if x not in valid]
            info = db.GetCategoryInfo(c)
            cls = "own_list" if info.valid_units is not None else ("borrowed_list" if qt != c and qt in db.categories_to_quantity_types and db.GetCategoryInfo(qt).valid_units is not None else "type_units")
            picks = [(valid[0], "listed")] if valid else []
            if len(valid) > 1:
                picks.append((valid[-1], "listed"))
            if outside:
                picks.append((outside[0], "unit_of_the_type_not_listed"))
                picks.append((outside[-1], "unit_of_the_type_not_listed"))
            for u, role in picks:
                ctx.cls("sweep_%s_%s" % (cls, role))
                core.guarded(ctx, lambda k: sweep_case(ctx, db, k["category"], k["unit"], k["role"]), {"kind": "sweep", "category": c, "unit": u, "role": role})
                n += 1
        ctx.exhaustive["shipped categories x (listed, not listed) units, object-level uses"] = "all %d pairs" % n
    # every (focus category, unit, changing registration) with the complete list of questions before and after
    n = 0
    for ops in fixed_scenarios():
        try:
            core.guarded(ctx, lambda k: run_case(ctx, k["base"], k["ops"]), {"base": "small", "ops": ops})
        except core.Viol as v:
            ctx.record(v.key, v.case, v.msg)
        ctx.cls("fixed_scenarios")
        n += 1
    ctx.exhaustive["question / changing registration / same question (3 categories x 4 units x 8 registrations, all questions)"] = "all %d histories" % n
    # the verdict of the validating constructor after the same factors went through a route that does not validate
    n = 0
    for base, specs in (
        ("posc", [("length", "s", "time", "s"), ("length", "m", "time", "s"), ("depth", "degC", "pressure", "m"), ("temperature", "K", "length", "psi"), ("time", "m", "length", "m")]),
        ("small", [("L", "s", "T", "s"), ("L", "m", "T", "s"), ("depth", "s", "L", "cm"), ("T", "m", "L", "m")]),
    ):
        pre = [["reg", copy.deepcopy(r)] for r in ([["base", "L", "metre", "m"], ["unit", "L", "centimetre", "cm", "%f*100.0", "%f/100.0", None], ["base", "T", "second", "s"], ["cat", "L", {"quantity_type": "L"}], ["cat", "T", {"quantity_type": "T"}], ["cat", "depth", {"quantity_type": "L"}]] if base == "small" else [])]
        for c1, u1, c2, u2 in specs:
            for e in (1, 2):
                for route in (0, 1, 2):
                    ops = pre + [["query", ["DerivedUnchecked", c1, u1, c2, u2, e, route]], ["query", ["CreateDerived", c1, u1, c2, u2, e]], ["query", ["CreateDerived", c1, u1, c2, u2, e]]]
                    try:
                        core.guarded(ctx, lambda k: run_case(ctx, k["base"], k["ops"]), {"base": base, "ops": ops})
                    except core.Viol as v:
                        ctx.record(v.key, v.case, v.msg)
                    ctx.cls("validating_constructor_after_an_unvalidated_route")
                    n += 1
    ctx.exhaustive["validating constructor after each non-validating route (fixed factor sets)"] = "all %d histories" % n


def run_shard(spec, ctx):
    base_kind = spec["part"]
    if base_kind == "sweep":
        return run_sweep(spec, ctx)
    ops = seq_strategy(base_kind, 30 if base_kind == "small" else 20)

    def mk():
        @given(ops)
        def test(seq):
            core.guarded(ctx, lambda c: run_case(ctx, c["base"], c["ops"]), {"base": base_kind, "ops": seq})

        return test

    core.hunt(ctx, mk, spec["seed"] * 1000 + spec["shard"], spec["examples"], max_root_causes=4 if spec["tier"] == "quick" else 8)


def replay(case, ctx):
    if case.get("kind") == "sweep":
        db = env.new_db("posc")
        with env.pushed(db):
            return core.replay_guarded(ctx, lambda k: sweep_case(ctx, db, k["category"], k["unit"], k["role"]), case)
    return core.replay_guarded(ctx, lambda c: run_case(ctx, c["base"], [list(o) for o in c["ops"]]), case)
