"""C16 — legacy unit spellings are exact aliases of the current ones."""
from hypothesis import given, strategies as st

from bv import core, env, gen, legacy, snapshot

PID = "C16"
RULE = (
    "Exhaustive over every legacy spelling derivable from an independent copy of the substitution list for every table "
    "symbol (62 on the shipped table) x every API entry that takes a unit string: ObtainQuantity (with/without each "
    "category of the type), Quantity(category, unit), Scalar / Array (list, tuple, ndarray) / FixedArray / "
    "FractionScalar construction in every argument form, CreateCopy(unit=) and CreateCopy(value, unit), GetValue / "
    "GetValues / FractionScalar.GetValue / GetFormatted(unit), Quantity.Convert / ConvertScalarValue, db.Convert as "
    "source and as target (by quantity type and by category, float / list / tuple / ndarray, exponent form), "
    "GetDefaultCategory, GetInfo, FixedArray.IndexAsScalar/ChangingIndex, Array.FromScalars(unit=), "
    "AddCategory(valid_units=/default_unit= incl. the derived-default-unit path) on a scratch database; x Hypothesis-"
    "generated values. Oracle: the result built with the legacy spelling == the one built with the current spelling "
    "(objects ==, numbers identical, registry entries identical); where the current spelling is rejected (cross-type "
    "conversions and constructions with a unit of another quantity type) the legacy spelling is rejected too. Plus FixUnitIfIsLegacy(legacy) == current, idempotent on "
    "all 62 + 1548 symbols, no current symbol rewritten, no legacy spelling registered; spellings combining two legacy fragments (as units "
    "registered at run time may) are rewritten by the whole chain, idempotently, and alias a run-time unit exactly. Objects created with the legacy spelling in a category registered a moment ago with that spelling carry the current spelling and equal the current-spelled ones. Registration through from_category with explicitly given units (valid_units, default_unit, an unknown unit) behaves like the direct form. Every spelling is also compared at fixed amounts from 1e-18 to 4e15 (an alias is exact at every magnitude). Every cell is non-trivial "
    "(an alias resolution); key = (spelling, API entry)."
)
ASSUMPTIONS = ["arbitrary strings are outside the domain (the rewrite is a substring chain)", "legacy fragments are an independent copy of the documented list; a pair removed from the library is a violation, a pair added is not"]
BUDGET_S = {"quick": 120, "thorough": 900}
EXHAUSTIVE = True


def plan(tier, seed):
    n = 4 if tier == "quick" else 8
    return [{"tier": tier, "seed": seed, "i": i, "n": n, "draws": 6 if tier == "quick" else 40} for i in range(n)]


def _eq(a, b):
    import numpy

    if isinstance(a, numpy.ndarray) or isinstance(b, numpy.ndarray):
        return type(a) is type(b) and a.shape == b.shape and bool((a == b).all())
    if isinstance(a, tuple) and isinstance(b, tuple) and len(a) == len(b):
        return all(_eq(x, y) for x, y in zip(a, b))
    r = a == b
    return bool(r) and type(a) is type(b)


def _close(a, b):
    """numeric agreement within the C01 tolerance, ignoring int/float and container type: used where
    a conversion between the alias and the current symbol itself is involved (one side takes the
    same-unit shortcut, the other the unit's function pair)"""
    import numpy

    if hasattr(a, "GetQuantity") and hasattr(b, "GetQuantity"):
        if a.GetQuantity() != b.GetQuantity() or type(a) is not type(b):
            return False
        a = a.GetValue() if hasattr(a, "GetValue") and not hasattr(a, "GetValues") else a.GetValues()
        b = b.GetValue() if hasattr(b, "GetValue") and not hasattr(b, "GetValues") else b.GetValues()
    if isinstance(a, (list, tuple, numpy.ndarray)) and isinstance(b, (list, tuple, numpy.ndarray)):
        return len(a) == len(b) and all(_close(x, y) for x, y in zip(a, b))
    try:
        fa, fb = float(a), float(b)
    except (TypeError, ValueError):
        return _eq(a, b)
    return core.close(fa, fb, abs(fa) + abs(fb), 1e-12, 1e-290)  # denormals underflow in the function pair


class Checker:
    def __init__(self, ctx, db):
        self.ctx = ctx
        self.db = db
        self.sp = legacy.spellings(db)
        cats = {}
        for c in db.IterCategories():
            cats.setdefault(db.GetCategoryQuantityType(c), []).append(c)
        self.cats = cats

    def entries(self, l, u, qt, c, w, x, y):
        """[(entry name, callable(unit spelling))] - each is evaluated with the legacy and the current spelling"""
        import numpy

        from barril.basic.fraction import Fraction, FractionValue
        from barril.units import Array, FixedArray, FractionScalar, ObtainQuantity, Quantity, Scalar

        db = self.db
        nd = lambda: numpy.array([x, y])
        fv = lambda: FractionValue(x, Fraction(1, 2))
        E = [
            ("ObtainQuantity(unit)", lambda s: ObtainQuantity(s)),
            ("ObtainQuantity(unit,category)", lambda s: ObtainQuantity(s, c)),
            ("ObtainQuantity(unit,category,caption)", lambda s: ObtainQuantity(s, c, "cap")),
            ("Quantity(category,unit)", lambda s: Quantity(c, s)),
            ("Scalar(v,u)", lambda s: Scalar(x, s)),
            ("Scalar(v,u,c)", lambda s: Scalar(x, s, c)),
            ("Scalar(c,v,u)", lambda s: Scalar(c, x, s)),
            ("Scalar((v,u))", lambda s: Scalar((x, s))),
            ("Scalar(c,unit=u)", lambda s: Scalar(c, unit=s)),
            ("Scalar(value=,unit=)", lambda s: Scalar(value=x, unit=s, category=c)),
            ("Array(list,u)", lambda s: Array([x, y], s)),
            ("Array(tuple,u,c)", lambda s: Array((x, y), s, c)),
            ("Array(c,ndarray,u)", lambda s: Array(c, nd(), s)),
            ("FixedArray(n,values,u)", lambda s: FixedArray(2, [x, y], s)),
            ("FixedArray(n,c,values,u)", lambda s: FixedArray(2, c, (x, y), s)),
            ("FixedArray(n,c,unit=u)", lambda s: FixedArray(3, c, unit=s)),
            ("FractionScalar(v,u)", lambda s: FractionScalar(x, s)),
            ("FractionScalar(fv,u,c)", lambda s: FractionScalar(fv(), s, c)),
            ("FractionScalar(c,fv,u)", lambda s: FractionScalar(c, fv(), s)),
            ("Scalar.CreateCopy(unit)", lambda s: Scalar(x, w, c).CreateCopy(unit=s)),
            ("Scalar.CreateCopy(value,unit)", lambda s: Scalar(x, w, c).CreateCopy(y, s)),
            ("Scalar.CreateCopy(unit,category)", lambda s: Scalar(x, w).CreateCopy(unit=s, category=c)),
            ("Array.CreateCopy(unit)", lambda s: Array([x, y], w, c).CreateCopy(unit=s)),
            ("FixedArray.CreateCopy(unit)", lambda s: FixedArray(2, nd(), w, c).CreateCopy(unit=s)),
            ("FractionScalar.CreateCopy(unit)", lambda s: FractionScalar(fv(), w, c).CreateCopy(unit=s)),
            ("Scalar.GetValue", lambda s: Scalar(x, w, c).GetValue(s)),
            ("Scalar.GetValue(from legacy)", lambda s: Scalar(x, s, c).GetValue(w)),
            ("Scalar.GetFormatted(unit)", lambda s: Scalar(x, w, c).GetFormatted(s).replace(s, "<unit>")),
            ("Array.GetValues(list)", lambda s: Array([x, y], w, c).GetValues(s)),
            ("Array.GetValues(tuple)", lambda s: Array((x, y), w, c).GetValues(s)),
            ("Array.GetValues(ndarray)", lambda s: Array(nd(), w, c).GetValues(s)),
            ("Array.GetValues(from legacy)", lambda s: Array([x, y], s, c).GetValues(w)),
            ("FixedArray.GetValues", lambda s: FixedArray(2, [x, y], w, c).GetValues(s)),
            ("FractionScalar.GetValue", lambda s: FractionScalar(fv(), w, c).GetValue(s)),
            ("Quantity.ConvertScalarValue", lambda s: ObtainQuantity(w, c).ConvertScalarValue(x, s)),
            ("Quantity.Convert", lambda s: ObtainQuantity(w, c).Convert(x, s)),
            ("Quantity.Convert(list)", lambda s: ObtainQuantity(w, c).Convert([x, y], s)),
            ("db.Convert(source)", lambda s: db.Convert(qt, s, w, x)),
            ("db.Convert(target)", lambda s: db.Convert(qt, w, s, x)),
            ("db.Convert(category,source)", lambda s: db.Convert(c, s, w, x)),
            ("db.Convert(category,target)", lambda s: db.Convert(c, w, s, x)),
            ("db.Convert(list)", lambda s: db.Convert(qt, w, s, [x, y])),
            ("db.Convert(tuple)", lambda s: db.Convert(qt, s, w, (x, y))),
            ("db.Convert(ndarray,target)", lambda s: db.Convert(qt, w, s, nd())),
            ("db.Convert(ndarray,source)", lambda s: db.Convert(qt, s, w, nd())),
            ("db.Convert(int)", lambda s: db.Convert(qt, s, w, 3)),
            ("db.Convert(exponent form)", lambda s: db.Convert(qt, [(s, 1)], [(w, 1)], x)),
            ("~db.Convert(same unit, both spellings)", lambda s: db.Convert(qt, s, u, x)),
            ("db.GetDefaultCategory", lambda s: db.GetDefaultCategory(s)),
            ("db.GetInfo", lambda s: db.GetInfo(qt, s).unit),
            ("db.GetInfo(category)", lambda s: db.GetInfo(c, s).unit),
            ("FixedArray.IndexAsScalar", lambda s: FixedArray(2, [x, y], w, c).IndexAsScalar(1, ObtainQuantity(s, c))),
            ("FixedArray.ChangingIndex(tuple)", lambda s: FixedArray(2, [x, y], w, c).ChangingIndex(0, (y, s))),
            ("FixedArray.ChangingIndex(Scalar)", lambda s: FixedArray(2, [x, y], w, c).ChangingIndex(0, Scalar(y, s, c))),
            ("~Array.FromScalars(unit=)", lambda s: Array.FromScalars([Scalar(x, w, c), Scalar(y, u, c)], unit=s)),
            ("Scalar + Scalar(legacy)", lambda s: Scalar(x, w, c) + Scalar(y, s, c)),
            ("Scalar(legacy) * Scalar", lambda s: (Scalar(x, s, c) * Scalar(y, "s")).GetQuantity().GetComposingUnits()),
            ("Scalar(legacy) < Scalar", lambda s: Scalar(x, s, c) < Scalar(y, w, c)),
            ("db.CheckCategoryUnit via Scalar", lambda s: Scalar(c, x, s).GetUnit()),
            ("repr(Scalar)", lambda s: repr(Scalar(x, s, c))),
        ]
        # the rejection path: a unit of another quantity type converted to / built with this unit is rejected, whichever
        # spelling is used
        w2, c2 = ("m", "length") if qt != "length" else ("s", "time")
        qt2 = c2
        E += [
            ("cross-type db.Convert(target)", lambda s: db.Convert(qt2, w2, s, x)),
            ("cross-type db.Convert(source)", lambda s: db.Convert(qt2, s, w2, x)),
            ("cross-type db.Convert(ndarray)", lambda s: db.Convert(qt2, w2, s, nd())),
            ("cross-type db.Convert(tuple)", lambda s: db.Convert(c2, w2, s, (x, y))),
            ("cross-type Scalar.GetValue", lambda s: Scalar(x, w2).GetValue(s)),
            ("cross-type Array.GetValues", lambda s: Array([x, y], w2).GetValues(s)),
            ("cross-type Array.GetValues(ndarray)", lambda s: Array(nd(), w2).GetValues(s)),
            ("cross-type FractionScalar.GetValue", lambda s: FractionScalar(fv(), w2).GetValue(s)),
            ("cross-type Scalar(v,u,c)", lambda s: Scalar(x, s, c2)),
            ("cross-type ObtainQuantity", lambda s: ObtainQuantity(s, c2)),
            ("cross-type db.GetInfo", lambda s: db.GetInfo(qt2, s).unit),
            ("cross-type db.GetUnitName", lambda s: db.GetUnitName(qt2, s)),
        ]
        return E

    def check_spelling(self, l, x, y, wi):
        ctx, db = self.ctx, self.db
        u = self.sp[l]
        info = db.unit_to_unit_info[u]
        qt = info.quantity_type
        units = db.GetUnits(qt)
        w = units[wi % len(units)]
        cats = self.cats.get(qt, [])
        for ci, c in enumerate(cats):
            E = self.entries(l, u, qt, c, w, x, y)
            if (len(l) + wi) % 2:
                # every other time the rejected (cross-type) uses of the spelling come before its valid uses
                E = [e for e in E if e[0].startswith("cross-type")] + [e for e in E if not e[0].startswith("cross-type")]
            for name, fn in E:
                if ci > 0 and "category" not in name and ",c" not in name and "(c," not in name:
                    continue  # entries that do not take the category are evaluated once
                case = {"kind": "entry", "legacy": l, "current": u, "entry": name, "c": c, "w": w, "x": x, "y": y}
                ctx.ev()
                try:
                    want = fn(u)
                except Exception as e:
                    if core.tree_frame(e) is None:
                        raise
                    # the current spelling is rejected here: an exact alias is rejected too
                    try:
                        got = fn(l)
                    except Exception:
                        ctx.cls("entry_rejected_with_both_spellings")
                        continue
                    ctx.record("legacy_spelling_accepted_where_current_is_rejected:%s" % name, case, "%s: the current spelling %r raises %s, the legacy spelling %r returns %r" % (name, u, type(e).__name__, l, got))
                    continue
                try:
                    got = fn(l)
                except Exception as e:
                    ctx.record("legacy_spelling_rejected:%s" % name, case, "%s with legacy spelling %r raised %s: %s; the current spelling %r gives %r" % (name, l, type(e).__name__, str(e)[:160], u, want))
                    continue
                if name.startswith("~") or w == u:
                    # a conversion between the alias and the current symbol itself is involved (always for the
                    # "~" entries, and for every converting entry when the partner unit w is the current symbol):
                    # one side takes the same-unit shortcut, the other the unit's function pair (C01 tolerance)
                    same = _close(got, want)
                else:
                    same = _eq(got, want)
                if not same:
                    ctx.record("legacy_result_differs:%s" % name, case, "%s: legacy spelling %r gives %r, current spelling %r gives %r" % (name, l, got, u, want))
                ctx.cls("entries_compared")
            ctx.nt_disjoint += 1
        if len(ctx.samples) < 5:
            ctx.sample({"legacy": l, "current": u, "quantity_type": qt, "categories": cats[:3], "other_unit": w, "x": x})

    def check_registration(self, l, scratch_kind):
        """AddCategory with legacy spellings in valid_units / default_unit on a scratch database"""
        ctx = self.ctx
        u = self.sp[l]
        results = {}
        for spelling in (l, u):
            db = env.new_db(scratch_kind)
            with env.pushed(db):
                qt = db.unit_to_unit_info[u].quantity_type
                units = db.GetUnits(qt)
                base = db.GetBaseUnit(qt)
                others = [v for v in units if v not in (u, base)][:2]
                outs = []
                variants = [
                    ("valid_units+default_unit", dict(valid_units=[spelling] + others, default_unit=spelling)),
                    ("valid_units only, legacy first, base absent", dict(valid_units=[spelling] + others)),
                    ("valid_units only, legacy last", dict(valid_units=others + [base, spelling])),
                    ("default_unit only", dict(default_unit=spelling)),
                    ("default_unit+limits", dict(default_unit=spelling, min_value=0.0, max_value=10.0, default_value=1.0)),
                    # the same through from_category: units given explicitly next to it are checked and rewritten as well
                    ("from_category+valid_units", dict(from_category="bv c16 3", valid_units=[spelling] + others)),
                    ("from_category+default_unit", dict(from_category="bv c16 3", default_unit=spelling)),
                    ("from_category+unknown unit", dict(from_category="bv c16 3", valid_units=[spelling + "s"])),
                ]
                for vi, (vname, kw) in enumerate(variants):
                    name = "bv c16 %d" % vi
                    try:
                        kw2 = {k: (list(v) if isinstance(v, list) else v) for k, v in kw.items()}
                        info = db.AddCategory(name, **kw2) if "from_category" in kw2 else db.AddCategory(name, qt, **kw2)
                        from barril.units import Scalar

                        s = Scalar(name)
                        # objects created in the new category right after the registration, with the legacy spelling:
                        # they carry the current spelling and equal the ones built with it
                        from barril.units import Array, FractionScalar, ObtainQuantity

                        o_l, o_u = Scalar(name, 2.5, l), Scalar(name, 2.5, u)
                        made = (o_l.GetUnit(), o_l == o_u, ObtainQuantity(l, name).GetUnit(), ObtainQuantity(l, name) == ObtainQuantity(u, name), Array(name, [1.0], l).GetUnit(), FractionScalar(name, 1.0, l).GetUnit(), s.CreateCopy(unit=l).GetUnit())
                        if made != (u, True, u, True, u, u, u):
                            ctx.record("legacy_spelling_kept_in_registered_category:%s" % vname, {"kind": "registration", "legacy": l, "current": u, "variant": vname}, "after AddCategory(%s, spelled %r): objects created with the legacy spelling %r give (unit, equal to the current-spelled one, quantity unit, equal quantity, Array unit, FractionScalar unit, CreateCopy unit) = %r" % (vname, spelling, l, made))
                        outs.append((vname, "ok", tuple(info.valid_units) if info.valid_units is not None else None, info.default_unit, db.GetDefaultUnit(name), tuple(db.GetValidUnits(name)), s.GetUnit(), repr(s.GetValue()), made))
                    except Exception as e:
                        outs.append((vname, "raises", type(e).__name__))
                results[spelling] = outs
        ctx.ev(len(results[u]))
        for a, b in zip(results[l], results[u]):
            if a != b:
                ctx.record("legacy_registration_differs:%s" % a[0], {"kind": "registration", "legacy": l, "current": u, "variant": a[0]}, "AddCategory(%s) with legacy spelling %r gives %r, with the current spelling %r" % (a[0], l, a[1:], b[1:]))
            elif b[1] == "ok" and (b[3] not in (b[2] or (b[3],)) or b[3] != b[4] or b[6] != b[3]):
                pass
        ctx.cls("registrations_compared", len(results[u]))

    def check_rewrite(self):
        from barril.units.unit_database import FixUnitIfIsLegacy

        ctx, db = self.ctx, self.db
        for l, u in self.sp.items():
            ctx.ev()
            ch, f = FixUnitIfIsLegacy(l)
            if f != u or not ch:
                ctx.record("rewrite_wrong", {"kind": "rewrite", "legacy": l, "current": u}, "FixUnitIfIsLegacy(%r) = %r, expected (True, %r)" % (l, (ch, f), u))
            ch2, f2 = FixUnitIfIsLegacy(f)
            if ch2 or f2 != f:
                ctx.record("rewrite_not_idempotent", {"kind": "rewrite", "legacy": l, "current": u}, "FixUnitIfIsLegacy applied twice to %r: %r then %r" % (l, f, f2))
            if l in db.unit_to_unit_info:
                ctx.record("legacy_spelling_is_registered", {"kind": "rewrite", "legacy": l, "current": u}, "legacy spelling %r is itself a registered symbol" % l)
        # spellings made of two legacy fragments (units registered by a user may well combine them): the rewrite is the
        # whole substitution chain, applied once, and applying it again changes nothing
        frs = [l for l, _ in legacy.LEGACY_TO_CURRENT]
        for l1 in frs:
            for l2 in frs:
                for sep in ("/", "."):
                    sp = l1 + sep + l2
                    ctx.ev()
                    ch, f = FixUnitIfIsLegacy(sp)
                    want = legacy.rewrite(sp)
                    if f != want or not ch:
                        ctx.record("rewrite_of_combined_fragments_wrong", {"kind": "rewrite", "legacy": sp, "current": want}, "FixUnitIfIsLegacy(%r) = %r, the substitution chain gives %r" % (sp, (ch, f), want))
                    ch2, f2 = FixUnitIfIsLegacy(f)
                    if ch2 or f2 != f:
                        ctx.record("rewrite_not_idempotent", {"kind": "rewrite", "legacy": sp, "current": want}, "FixUnitIfIsLegacy applied twice to %r: %r then %r" % (sp, f, f2))
        for s in db.unit_to_unit_info:
            ctx.ev()
            ch, f = FixUnitIfIsLegacy(s)
            if ch or f != s:
                ctx.record("current_symbol_rewritten", {"kind": "rewrite", "legacy": s, "current": s}, "current symbol %r is rewritten to %r" % (s, f))
        ctx.exhaustive["rewrite idempotence / non-capture over all legacy spellings and all table symbols"] = "%d + %d" % (len(self.sp), len(db.unit_to_unit_info))


def check_runtime_unit(ctx):
    """a unit registered at run time whose symbol contains two current fragments: its fully legacy spelling is an
    exact alias in the main entries"""
    from barril.units import Array, ObtainQuantity, Scalar

    db = env.new_db("posc")
    with env.pushed(db):
        qt = "concentration of B"
        base = db.GetBaseUnit(qt)
        cur, leg = "lbmol/MMcf", "lbmole/M(ft3)"
        if cur in db.unit_to_unit_info:
            return
        db.AddUnit(qt, "pound moles per million cubic feet", cur, "%f * 62427.96", "%f / 62427.96")
        cat = qt
        entries = [
            ("ObtainQuantity", lambda s: ObtainQuantity(s, cat)),
            ("Scalar(v,u,c)", lambda s: Scalar(2.5, s, cat)),
            ("Array(values,u,c)", lambda s: Array([1.0, 2.0], s, cat)),
            ("Scalar.GetValue", lambda s: Scalar(2.5, base, cat).GetValue(s)),
            ("db.Convert(target)", lambda s: db.Convert(qt, base, s, 2.5)),
            ("db.Convert(source)", lambda s: db.Convert(qt, s, base, 2.5)),
            ("Scalar.CreateCopy(unit)", lambda s: Scalar(2.5, base, cat).CreateCopy(unit=s)),
            ("AddCategory(valid_units)", lambda s: tuple(db.AddCategory("bv c16 rt %s" % len(s), qt, valid_units=[s, base]).valid_units)),
        ]
        for name, fn in entries:
            case = {"kind": "runtime_unit", "legacy": leg, "current": cur, "entry": name}
            ctx.ev()
            want = fn(cur)
            try:
                got = fn(leg)
            except Exception as e:
                ctx.record("legacy_spelling_rejected:run-time unit:%s" % name, case, "%s with the legacy spelling %r of the run-time unit %r raised %s: %s" % (name, leg, cur, type(e).__name__, str(e)[:120]))
                continue
            if not _eq(got, want):
                ctx.record("legacy_result_differs:run-time unit:%s" % name, case, "%s: %r gives %r, %r gives %r" % (name, leg, got, cur, want))
        ctx.cls("runtime_unit_entries", len(entries))


def run_shard(spec, ctx):
    if spec["i"] == 0:
        check_runtime_unit(ctx)
    db = env.new_db("posc")
    with env.pushed(db):
        ch = Checker(ctx, db)
        ls = sorted(ch.sp)
        mine = ls[spec["i"] :: spec["n"]]
        ctx.exhaustive["legacy spellings x API entries"] = "all %d spellings" % len(ls)
        if spec["i"] == 0:
            ch.check_rewrite()
            if len(ls) < 50:
                ctx.record("legacy_spellings_missing", {"kind": "count"}, "only %d legacy spellings are derivable from the table (62 on the shipped table)" % len(ls))
        reg0 = snapshot.registry_light(db)

        def t():
            @given(gen.finite_values(1e9, 1e-9), gen.moderate_values(1e-2, 1e3), st.integers(0, 50))
            def test(x, y, wi):
                for l in mine:
                    ch.check_spelling(l, x, y, wi)

            return test

        core.hunt(ctx, t, spec["seed"] * 1000 + spec["shard"], spec["draws"], shrink=False)
        # fixed amounts of very small and very large magnitude as well (an alias is exact at every magnitude)
        for l in mine:
            for k, (x, y) in enumerate(((1e-15, -3e-14), (2.5e-13, 1e-18), (4e15, -7e12))):
                ch.check_spelling(l, x, y, k)
        if snapshot.registry_light(db) != reg0:
            ctx.record("registry_changed_by_alias_use", {"kind": "registry"}, "using legacy spellings changed the registry")
    for l in mine:
        ch.check_registration(l, "posc")


def replay(case, ctx):
    db = env.new_db("posc")
    with env.pushed(db):
        ch = Checker(ctx, db)
        k = case.get("kind")
        if k == "entry":
            units = db.GetUnits(db.unit_to_unit_info[case["current"]].quantity_type)
            ch.check_spelling(case["legacy"], case["x"], case["y"], units.index(case["w"]))
        elif k == "rewrite":
            ch.check_rewrite()
    if case.get("kind") == "runtime_unit":
        check_runtime_unit(ctx)
        return ["%s: %s" % (k, v["msg"]) for k, v in ctx.violations.items()]
    if case.get("kind") == "registration":
        ch.check_registration(case["legacy"], "posc")
    return ["%s: %s" % (k, v["msg"]) for k, v in ctx.violations.items()]
