"""C17 — unit-system manager: one current system, exact notifications."""
import collections
import copy
import itertools

from hypothesis import given, strategies as st

from bv import core, env

PID = "C17"
RULE = (
    "(a) bounded-exhaustive: every sequence up to length 4 (quick) / 5 plus a seed-selected slice of length 6 (thorough) "
    "over an alphabet of 21 calls on pools {ids a, b; categories length, time; units m, cm, km, s; mappings none / "
    "{length:cm} / fresh {length:m,time:s} / one dict object shared by several systems}: SetTemplateUnitSystemByUnitsMapping, "
    "AddUnitSystem (mapping given / None, duplicate id, missing category), RemoveUnitSystem (existing, missing, current, "
    "while none is current), SetCurrent(registered | None), system.SetDefaultUnit, system.RemoveCategory, each on a fresh "
    "manager; (b) Hypothesis-generated long histories with three ids and generated mappings. Oracle: a reference model of "
    "(systems, current, template) that predicts accept/reject, GetUnitSystems order, GetCurrent().GetId(), every system's "
    "mapping, GetUnitSystemById, GetNewId not in ids, GetCategoryDefaultUnit, GetQuantityDefaultUnit, ConvertToCurrent "
    "(db float conversion into the model's default unit, or unchanged; amounts 2.5, 3, 0 and 0.0, length / time / temperature incl. degC and degF into K) and the exact sequence of on_current / "
    "on_unit_changed notifications (re-selecting the current system may or may not notify; after removing the current "
    "system any registered system or none may be selected); a rejected call leaves the model-visible state and the "
    "notification log untouched. Mappings may name a unit of another quantity type (they are taken as given): converting into such a unit, or from a unit that is not a unit of the category, raises. One manager used while the shipped and a project database are current in turn (either order) converts with the database that is current at each call. Categories of a mapped quantity type that the system does not map (depth, diameter) come back unchanged. Callers also choose ids of the form GetNewId hands out, and add systems under the id offered. Non-trivial = history with a removal or a default-unit change after a change of the "
    "current system; key = the history."
)
ASSUMPTIONS = [
    "SetCurrent with a system that was never registered is a caller precondition and is not generated",
    "object re-unit tracking (Register/UpdateObjects) is outside the statement",
]
BUDGET_S = {"quick": 150, "thorough": 1500}
TEMPLATE_UNITS = {"length": "m", "time": "s"}
MAPPINGS = {"none": None, "len": {"length": "cm"}, "both": {"length": "m", "time": "s", "temperature": "K"}}


def mk_ops(ids):
    ops = [["tmpl", ["length"]], ["tmpl", ["length", "time"]]]
    for i in ids:
        ops += [["add", i, "none"], ["add", i, "len"], ["add", i, "both"], ["add", i, "shared"], ["rm", i], ["cur", i], ["setu", i, "length", "km"], ["rmcat", i, "time"]]
    ops += [["cur", None], ["rm", "zz"], ["setu", "a", "time", "min"]]
    return ops


OPS = mk_ops(["a", "b"])


def plan(tier, seed):
    specs = []
    n = 6 if tier == "quick" else 16
    for i in range(n):
        specs.append({"part": "exhaustive", "i": i, "n": n, "tier": tier, "seed": seed})
    for i in range(2 if tier == "quick" else 4):
        specs.append({"part": "random", "tier": tier, "seed": seed, "examples": 400 if tier == "quick" else 8000})
    return specs


class Model:
    def __init__(self):
        self.sys = collections.OrderedDict()  # id -> mapping (own copy)
        self.cur = None
        self.tmpl = None


def mapping_of(kind, shared):
    if kind == "shared":
        return shared
    if isinstance(kind, dict):
        return dict(kind)
    m = MAPPINGS[kind]
    return None if m is None else dict(m)


def run_history(ctx, seq, fail, db):
    from barril.units import ObtainQuantity
    from barril.units.unit_system_manager import UnitSystemManager

    mgr = UnitSystemManager()
    log = []
    mgr.on_current.Register(lambda us: log.append(("cur", us.GetId())))
    mgr.on_unit_changed.Register(lambda c, u: log.append(("unit", c, u)))
    shared = {"length": "m", "time": "s"}  # one dict object handed to several systems of this history
    M = Model()
    flags = set()
    cur_changed = False
    for step, op in enumerate(seq):
        if op[0] == "addnew":
            # a system added under the id the manager offers (recorded in the case as the concrete call)
            op = seq[step] = ["add", mgr.GetNewId(), op[1]]
        exp_log = []
        reject = False
        maybe = []  # optional notifications
        pick_any_current = False
        Mb = copy.deepcopy((M.sys, M.cur, M.tmpl))
        k = op[0]
        if k == "tmpl":
            cats = op[1]
            if any(not set(mp) >= set(cats) for mp in M.sys.values()):
                reject = True
            else:
                M.tmpl = {c: TEMPLATE_UNITS[c] for c in cats}
        elif k == "add":
            i = op[1]
            if i in M.sys:
                reject = True
            else:
                mp = mapping_of(op[2], shared)
                if M.tmpl is not None:
                    if mp is None:
                        mp = dict(M.tmpl)
                    elif not set(mp) >= set(M.tmpl):
                        reject = True
                elif mp is None:
                    mp = {}
                if not reject:
                    M.sys[i] = dict(mp)
                    if M.cur is None:
                        M.cur = i
                        exp_log.append(("cur", i))
                        cur_changed = True
        elif k == "rm":
            i = op[1]
            if i not in M.sys:
                reject = True
            else:
                del M.sys[i]
                flags.add("removal")
                if cur_changed:
                    flags.add("removal_after_change_of_current")
                if M.cur == i:
                    pick_any_current = True
        elif k == "cur":
            i = op[1]
            if i is not None and i not in M.sys:
                continue  # caller precondition: only registered systems are selected
            if i == M.cur:
                maybe = [("cur", i)]
            else:
                exp_log.append(("cur", i))
                cur_changed = True
            M.cur = i
        elif k == "setu":
            i = op[1]
            if i not in M.sys:
                continue
            M.sys[i][op[2]] = op[3]
            if M.cur == i:
                exp_log.append(("unit", op[2], op[3]))
            if cur_changed:
                flags.add("default_unit_change_after_change_of_current")
        elif k == "rmcat":
            i = op[1]
            if i not in M.sys:
                continue
            if op[2] in M.sys[i]:
                del M.sys[i][op[2]]
                if M.cur == i:
                    exp_log.append(("unit", op[2], None))
        # ---- real
        del log[:]
        exc = None
        ctx.ev()
        try:
            if k == "tmpl":
                mgr.SetTemplateUnitSystemByUnitsMapping({c: TEMPLATE_UNITS[c] for c in op[1]})
            elif k == "add":
                mgr.AddUnitSystem(op[1], "caption " + op[1], mapping_of(op[2], shared))
            elif k == "rm":
                mgr.RemoveUnitSystem(op[1])
            elif k == "cur":
                mgr.SetCurrent(mgr.GetUnitSystems()[op[1]] if op[1] else None)
            elif k == "setu":
                mgr.GetUnitSystems()[op[1]].SetDefaultUnit(op[2], op[3])
            elif k == "rmcat":
                mgr.GetUnitSystems()[op[1]].RemoveCategory(op[2])
        except Exception as e:
            if core.tree_frame(e) is None and not isinstance(e, (KeyError, AssertionError, ValueError)):
                raise
            exc = e
        case = {"ops": seq[: step + 1]}
        opk = "%s" % k if k != "add" else "add:%s" % (op[2] if isinstance(op[2], str) else "generated")
        if reject:
            M.sys, M.cur, M.tmpl = Mb
            flags.add("rejection")
        if (exc is not None) != reject:
            fail(
                "accept_reject_differs:%s:%s" % (opk, "rejected" if exc is not None else "accepted"),
                case,
                "step %d %r: the manager %s, the reference model %s it" % (step, op, "raised %s: %s" % (type(exc).__name__, str(exc)[:80]) if exc is not None else "accepted it", "rejects" if reject else "accepts"),
            )
            return flags
        ids = list(mgr.GetUnitSystems())
        cur_real = mgr.GetCurrent().GetId()
        if pick_any_current:
            # any registered system, or none, may become current; the notification must name it
            if cur_real is not None and cur_real not in M.sys:
                fail("current_not_registered_after_removal", case, "after removing the current system %r the current one is %r, registered: %r" % (op[1], cur_real, list(M.sys)))
                return flags
            M.cur = cur_real
            exp_log.append(("cur", cur_real))
            cur_changed = True
        if reject and log:
            fail("rejected_call_notified:%s" % opk, case, "step %d %r was rejected but listeners received %r" % (step, op, log))
            return flags
        gl = list(log)
        if gl != exp_log and gl != exp_log + maybe and gl != maybe + exp_log:
            what = "missing" if len(gl) < len(exp_log) else ("extra" if len(gl) > len(exp_log) else "different")
            fail("notifications_%s:%s" % (what, opk), case, "step %d %r: listeners received %r, expected %r%s" % (step, op, gl, exp_log, " (optionally %r)" % maybe if maybe else ""))
            return flags
        state = (ids, cur_real, {i: dict(s.GetUnitsMapping()) for i, s in mgr.GetUnitSystems().items()})
        mstate = (list(M.sys), M.cur, {i: dict(mp) for i, mp in M.sys.items()})
        if state != mstate:
            which = "ids" if state[0] != mstate[0] else ("current" if state[1] != mstate[1] else "mappings")
            fail("state_differs:%s:%s%s" % (which, opk, ":after_rejection" if reject else ""), case, "after step %d %r%s: manager has %r, the model %r" % (step, op, " (rejected)" if reject else "", state, mstate))
            return flags
        if len(set(ids)) != len(ids) or any(mgr.GetUnitSystemById(i).GetId() != i for i in ids):
            fail("ids_not_unique_or_lookup_wrong", case, "ids %r" % ids)
            return flags
        if cur_real is not None and cur_real not in ids:
            fail("current_not_registered", case, "current system %r is not registered (%r)" % (cur_real, ids))
            return flags
        if mgr.GetNewId() in ids:
            fail("new_id_in_use", case, "GetNewId() = %r is registered" % mgr.GetNewId())
            return flags
        # conversions into the current default units
        cm = M.sys.get(M.cur, {}) if M.cur is not None else {}
        # (amounts include zero and a unit with an offset: 0 degC is 273.15 K, not "nothing to convert")
        for cat, unit, x in (("length", "ft", 2.5), ("time", "min", 3.0), ("temperature", "degC", 0.0), ("temperature", "degF", -40.0), ("length", "ft", 0.0), ("time", "min", 0), ("depth", "m", 1500.0), ("diameter", "in", 2.0)):
            # ('depth' and 'diameter' are categories of quantity type length that no system maps: unchanged, whatever the
            # system says about 'length')
            ctx.ev()
            if cat in cm and cm[cat] not in db.GetUnits(db.GetCategoryQuantityType(cat)):
                # the current system names a unit of another quantity type for this category: nothing can be
                # re-expressed in it
                want = "raises"
            else:
                want = (db.Convert(cat, unit, cm[cat], x), cm[cat]) if cat in cm else (x, unit)
            try:
                got = tuple(mgr.ConvertToCurrent(cat, unit, x))
            except Exception as e:
                if core.tree_frame(e) is None or want != "raises":
                    raise
                got = "raises"
            if got != want:
                fail("convert_to_current_wrong", case, "ConvertToCurrent(%r,%r,%r) = %r, expected %r (current %r with mapping %r)" % (cat, unit, x, got, want, M.cur, cm))
                return flags
            if mgr.GetCategoryDefaultUnit(cat) != cm.get(cat):
                fail("category_default_unit_wrong", case, "GetCategoryDefaultUnit(%r) = %r, expected %r" % (cat, mgr.GetCategoryDefaultUnit(cat), cm.get(cat)))
                return flags
            q = ObtainQuantity(unit, cat)
            if mgr.GetQuantityDefaultUnit(q) != cm.get(cat, unit):
                fail("quantity_default_unit_wrong", case, "GetQuantityDefaultUnit(%r) = %r, expected %r" % (q, mgr.GetQuantityDefaultUnit(q), cm.get(cat, unit)))
                return flags
        # an amount written in a unit that is not a unit of the category cannot be re-expressed in the category's current
        # unit, whatever that is (a mapping is not validated, so the current unit may be as foreign as the given one):
        # the call raises; without a current unit for the category the amount comes back as given
        for cat, unit, x in ((("length", "kg", 2.0), ("time", "g", 1.0))[step % 2],):
            ctx.ev()
            try:
                got = tuple(mgr.ConvertToCurrent(cat, unit, x))
            except Exception as e:
                if core.tree_frame(e) is None:
                    raise
                got = "raises"
            want = "raises" if (cat in cm and cm[cat] != unit) else (x, unit)
            if got != want:
                fail("convert_to_current_foreign_unit", case, "ConvertToCurrent(%r,%r,%r) = %r, expected %r (current %r with mapping %r)" % (cat, unit, x, got, want, M.cur, cm))
                return flags
    return flags


def gen_op():
    # (ids of the very form GetNewId hands out are a caller's to choose as well)
    ids = st.sampled_from(["a", "b", "c", "a", "b", "system 1", "system 2", "system 3"])
    cats = st.sampled_from(["length", "time", "length", "time", "temperature"])
    # (one foreign default unit per category: mappings are taken as given)
    units = {"length": ["m", "cm", "km", "ft", "g"], "time": ["s", "min", "h", "kg"], "temperature": ["K", "degF", "degC", "degR"]}
    mapping = st.one_of(
        st.sampled_from(["none", "len", "both", "shared"]),
        st.fixed_dictionaries({}, optional={"length": st.sampled_from(units["length"]), "time": st.sampled_from(units["time"]), "temperature": st.sampled_from(units["temperature"])}),
    )
    return st.one_of(
        st.sampled_from(OPS),
        st.tuples(st.just("add"), ids, mapping).map(list),
        st.tuples(st.just("rm"), ids).map(list),
        st.tuples(st.just("addnew"), mapping).map(list),
        st.tuples(st.just("cur"), st.one_of(ids, st.none())).map(list),
        cats.flatmap(lambda c: st.tuples(st.just("setu"), ids, st.just(c), st.sampled_from(units[c])).map(list)),
        st.tuples(st.just("rmcat"), ids, cats).map(list),
        st.sampled_from([["tmpl", ["length"]], ["tmpl", ["time"]], ["tmpl", ["length", "time"]], ["tmpl", []]]),
    )


def check_manager_follows_the_current_database(ctx, db):
    """One manager used while two different databases are current in turn (either order): every ConvertToCurrent
    re-expresses the amount with the database that is current at that call."""
    from barril.units.unit_system_manager import UnitSystemManager

    other = env.skewed_db()
    for order in ("shipped first", "project first"):
        mgr = UnitSystemManager()
        mgr.AddUnitSystem("a", "A", {"length": "cm", "time": "min", "temperature": "degC"})
        mgr.SetCurrent(mgr.GetUnitSystemById("a"))
        seq = [db, other, db] if order == "shipped first" else [other, db, other]
        for d in seq:
            with env.pushed(d):
                for cat, unit, x in (("length", "m", 2.0), ("length", "ft", 3.0), ("time", "h", 1.5), ("temperature", "K", 300.0)):
                    ctx.ev()
                    want = (d.Convert(cat, unit, {"length": "cm", "time": "min", "temperature": "degC"}[cat], x), {"length": "cm", "time": "min", "temperature": "degC"}[cat])
                    got = tuple(mgr.ConvertToCurrent(cat, unit, x))
                    if got != want:
                        ctx.record("convert_to_current_uses_another_database_than_the_current_one:%s" % order.replace(" ", "_"), {"kind": "two_databases", "order": order, "cat": cat, "unit": unit, "x": x}, "%s: ConvertToCurrent(%r,%r,%r) = %r while the current database converts it to %r" % (order, cat, unit, x, got, want))
    ctx.cls("manager_under_two_databases")


def run_shard(spec, ctx):
    tier = spec["tier"]
    db = env.new_db("posc")
    with env.pushed(db):
        if spec.get("i", 0) == 0 and spec["part"] == "exhaustive":
            check_manager_follows_the_current_database(ctx, db)
        if spec["part"] == "exhaustive":
            depth = 4 if tier == "quick" else 5
            nops = len(OPS)
            total = 0

            def run_all(L, slice_mod=None, slice_rem=0):
                nonlocal total
                k = 0
                for idx in itertools.product(range(nops), repeat=L):
                    k += 1
                    if k % spec["n"] != spec["i"]:
                        continue
                    if slice_mod and (k // spec["n"]) % slice_mod != slice_rem:
                        continue
                    if total % 1024 == 0 and ctx.out_of_time():
                        return
                    seq = [OPS[j] for j in idx]
                    flags = run_history(ctx, seq, ctx.record, db)
                    total += 1
                    if "removal_after_change_of_current" in flags or "default_unit_change_after_change_of_current" in flags:
                        ctx.nt_disjoint += 1
                    for f in flags:
                        ctx.cls("histories_with_" + f)
                    if total % 9001 == 0 and len(ctx.samples) < 4:
                        ctx.sample({"ops": seq})

            if spec["i"] == 0:
                # ids of the form GetNewId hands out, chosen by the caller, in every order and with removals in
                # between: the id offered next is never one in use, and a system added under it is accepted
                names = ["system 1", "system 2", "system 3"]
                n_ids = 0
                for r in (1, 2, 3):
                    for adds in itertools.permutations(names, r):
                        for rm in [None] + list(adds):
                            seq = [["add", i, "len"] for i in adds] + ([["rm", rm]] if rm else [])
                            seq += [["addnew", "both"], ["addnew", "none"]]
                            run_history(ctx, seq, ctx.record, db)
                            n_ids += 1
                ctx.cls("histories_with_caller_chosen_numbered_ids", n_ids)
            for L in range(1, depth + 1):
                run_all(L)
            ctx.exhaustive["manager histories over the %d-call alphabet" % nops] = "all of length <= %d" % depth
            if tier == "thorough":
                run_all(6, slice_mod=24, slice_rem=spec["seed"] % 24)
                ctx.exhaustive["manager histories of length 6"] = "seed-selected 1/24 slice"
            ctx.cls("histories_enumerated", total)
            return

        def mk():
            @given(st.lists(gen_op(), min_size=3, max_size=40))
            def test(seq):
                flags = run_history(ctx, seq, ctx.fail, db)
                ctx.cls("random_histories")
                if "removal_after_change_of_current" in flags or "default_unit_change_after_change_of_current" in flags:
                    ctx.nontrivial(("random", repr(seq)), {"ops": seq} if len(ctx.samples) < 6 else None)

            return test

        core.hunt(ctx, mk, spec["seed"] * 1000 + spec["shard"], spec["examples"])


def replay(case, ctx):
    db = env.new_db("posc")
    with env.pushed(db):
        if case.get("kind") == "two_databases":
            check_manager_follows_the_current_database(ctx, db)
            return ["%s: %s" % (k, v["msg"]) for k, v in ctx.violations.items()]
        seq = [list(o) for o in case["ops"]]
        run_history(ctx, seq, ctx.record, db)
    return ["%s: %s" % (k, v["msg"]) for k, v in ctx.violations.items()]
