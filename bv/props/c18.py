"""C18 — fractional values keep their numeric meaning."""
import copy
import fractions
import math
from decimal import Decimal

from hypothesis import given, strategies as st

from bv import core, env, gen
from bv.model import UnitModel
from bv.util import partition

PID = "C18"
RULE = (
    "(A) Hypothesis generates FractionValue(number, (numerator, denominator)) inside the domain in which '%g' formatting "
    "is lossless (number: integer or decimal with <= 6 significant digits in [1e-4, 1e6) or 0; numerator integer "
    "(|n| <= 99999) or decimal with <= 2 places; denominator 1..999; reduced fraction parts < 1e6; all sign "
    "patterns): float(fv) == number + numerator/denominator in exact rational arithmetic (4 ulp); the six order "
    "operators between two such values == the order of the exact rationals; CreateFromString(str(fv)) == fv and "
    "CreateFromString(GetLocalizedString()) == fv; copy.copy == and independent; after editing the parts in place (numerator / denominator setters, SetNumber, SetFraction, item assignment fraction[0] / fraction[1], augmented assignment on a Fraction) float(), the order operators and the text denote the new amount, and values built or parsed without a fraction part do not share one. CreateFromFloat(v) for floats with "
    "<= 8 significant decimals, decimal exponent -12..12: float(result) == v (rel 1e-9). (B) Fraction + - * / % abs "
    "neg **n (|n|<=4) and the six comparisons, also with int/float operands on either side, against "
    "fractions.Fraction on the decimal literals - exactly. (C) FractionScalar(fv,u): GetValue(v), db.Convert of a "
    "FractionValue, the six comparisons and IsValid / CheckValidity (three categories with limits - length [0,100) m, length [0.05,1] m, temperature [250,300] K - written in default and other units incl. degC/degF, numbers as generated and near the limits; verdict, violated limit and operator) against Scalar(float(fv),u), over unit pairs "
    "of every quantity type (one rotation per draw in quick, all 37 040 pairs in thorough) incl. affine units, "
    "1e-12*S plus the library's documented 1e-8 absolute rounding of the converted numerator; the same on a database "
    "registered at run time (affine units given by string formulas and by callables). The classmethod ConvertFractionValue called directly (quantity object in the source unit, in the target unit, quantity type by name) gives the same amount; objects created before their category is re-registered with other limits keep agreeing with the Scalar. Non-trivial = non-zero "
    "fraction part with non-integer number, or a conversion between different units; key = (operation, digit class, "
    "unit pair)."
)
ASSUMPTIONS = [
    "numbers that '%g' prints in exponent form or with more than 6 digits are outside the format/parse round-trip domain (lossy by design)",
    "barril's Fraction normalises float numerators with an absolute 1e-8 threshold by design: up to 2e-8 relative slack on the fraction part is allowed",
    "C locale",
]
BUDGET_S = {"quick": 150, "thorough": 1500}


def plan(tier, seed):
    specs = []
    for i in range(3 if tier == "quick" else 6):
        specs.append({"part": "value", "tier": tier, "seed": seed, "n": 1500 if tier == "quick" else 40000})
    for i in range(2 if tier == "quick" else 4):
        specs.append({"part": "fraction", "tier": tier, "seed": seed, "n": 1500 if tier == "quick" else 40000})
    n = 4 if tier == "quick" else 8
    for i in range(n):
        specs.append({"part": "scalar", "tier": tier, "seed": seed, "i": i, "n": n})
    specs.append({"part": "scalar_project", "tier": tier, "seed": seed})
    return specs


def dec(x):
    """exact rational of the decimal literal of x (ints stay ints)"""
    if isinstance(x, int):
        return fractions.Fraction(x)
    return fractions.Fraction(Decimal(repr(x)))


# =============================================================================================
# (A) FractionValue


class ValueChecker:
    def __init__(self, ctx):
        self.ctx = ctx

    def make(self, spec):
        from barril.basic.fraction import Fraction, FractionValue

        number, num, den = spec
        return FractionValue(number, Fraction(num, den))

    def exact(self, spec):
        number, num, den = spec
        return dec(number) + dec(num) / den

    def digit_class(self, spec):
        number, num, den = spec
        return ("int" if float(number).is_integer() else "dec", "int" if float(num).is_integer() else "dec", "neg" if number < 0 or num < 0 else "pos")

    def check_value(self, case):
        """case: a (number, num, den), b (same)"""
        from barril.basic.fraction import Fraction, FractionValue

        ctx = self.ctx
        a_spec, b_spec = tuple(case["a"]), tuple(case["b"])
        fa, fb = self.make(a_spec), self.make(b_spec)
        ea, eb = self.exact(a_spec), self.exact(b_spec)
        # float
        ctx.ev()
        got = float(fa)
        want = float(ea)
        if not core.close(got, want, abs(float(dec(a_spec[0]))) + abs(float(dec(a_spec[1]) / a_spec[2])), 1e-15):
            ctx.fail("float_wrong", case, "float(%r) = %r, number + numerator/denominator = %r" % (fa, got, want))
        # ordering
        if abs(ea - eb) > fractions.Fraction(1, 10**12) * (abs(ea) + abs(eb)) or ea == eb:
            for name, r, w in (("lt", fa < fb, ea < eb), ("le", fa <= fb, ea <= eb), ("gt", fa > fb, ea > eb), ("ge", fa >= fb, ea >= eb)):
                ctx.ev()
                if ea == eb and float(fa) != float(fb):
                    continue
                if bool(r) != w:
                    ctx.fail("order_wrong:%s" % name, case, "%r %s %r gives %r, exact rationals %s and %s give %r" % (fa, name, fb, r, ea, eb, w))
        # format -> parse
        for how, text in (("str", str(fa)), ("localized", fa.GetLocalizedString())):
            ctx.ev()
            try:
                back = FractionValue.CreateFromString(text)
            except ValueError as e:
                ctx.fail("format_not_parseable:%s" % how, case, "%s(%r) = %r cannot be parsed back: %s" % (how, fa, text, e))
                continue
            if not (back == fa) or float(back) != float(fa):
                ctx.fail("format_parse_changes_value:%s" % how, case, "%s(%r) = %r parses to %r (%r vs %r)" % (how, fa, text, back, float(back), float(fa)))
        # copy
        ctx.ev()
        c = copy.copy(fa)
        if not (c == fa) or c is fa or c.GetFraction() is fa.GetFraction():
            ctx.fail("copy_not_equal_or_shared", case, "copy.copy(%r) = %r (shares the fraction: %r)" % (fa, c, c.GetFraction() is fa.GetFraction()))
        before_edit = float(c)
        den_c = c.GetFraction().denominator  # read before the edit: the library reduces the fraction afterwards
        num0 = c.GetNumber()
        c.GetFraction().numerator = 7
        ctx.ev()
        if not core.close(float(c), num0 + 7 / den_c, abs(num0) + 7.0, 1e-15):
            ctx.fail("float_stale_after_editing_parts", case, "float() was %r, then the numerator was set to 7 in place (denominator %r, number %r): float() = %r" % (before_edit, den_c, num0, float(c)))
        c.SetNumber(99)
        if float(fa) != got:
            ctx.fail("copy_not_independent", case, "changing the copy changed the original %r" % fa)
        # the parts are public and mutable: after editing them (in place or through the setters) float(), the order
        # operators and the text all denote the new number + numerator/denominator
        ctx.ev()
        want_c = 99 + 7 / den_c
        if not core.close(float(c), want_c, 106.0, 1e-15):
            ctx.fail("float_stale_after_editing_parts", case, "float() was %r, then number := 99 and numerator := 7 (denominator %r): float() = %r, expected %r" % (before_edit, den_c, float(c), want_c))
        c.number = 4
        float(c)
        c.GetFraction().denominator = 8
        c.fraction.numerator = 3
        ctx.ev()
        if float(c) != 4.375 or not (c < FractionValue(4.5)) or not (c > FractionValue(4.25)) or str(c) != "4 3/8":
            ctx.fail("float_stale_after_editing_parts", case, "after number := 4, fraction := 3/8: float() = %r, str() = %r" % (float(c), str(c)))
        c.SetFraction((1, 2))
        if float(c) != 4.5:
            ctx.fail("float_stale_after_editing_parts", case, "after SetFraction((1,2)) on 4 3/8: float() = %r" % float(c))
        # item assignment is the third way to edit a fraction in place (fraction[0] numerator, fraction[1] denominator)
        ctx.ev()
        str(c), c < FractionValue(5), float(c.fraction)
        c.fraction[0] = 3
        c.fraction[1] = 4
        if float(c) != 4.75 or float(c.fraction) != 0.75 or str(c) != "4 3/4" or not (c > FractionValue(4.5)) or c.fraction != Fraction(3, 4):
            ctx.fail("float_stale_after_editing_parts:item_assignment", case, "after fraction[0] := 3, fraction[1] := 4 on 4 1/2: float() = %r, float(fraction) = %r, str() = %r" % (float(c), float(c.fraction), str(c)))
        c.fraction[0] = 0
        if float(c) != 4.0 or str(c) != "4" or FractionValue.CreateFromString(str(c)) != c:
            ctx.fail("float_stale_after_editing_parts:item_assignment", case, "after fraction[0] := 0 on 4 3/4: float() = %r, str() = %r" % (float(c), str(c)))
        # values parsed from texts without a fraction part (and built without one) do not share their zero fraction
        ctx.ev()
        p1 = FractionValue.CreateFromString("3")
        d1 = FractionValue(3)
        p1.GetFraction().numerator = 1
        p1.GetFraction().denominator = 2
        d1.GetFraction().numerator = 1
        p2 = FractionValue.CreateFromString(str(FractionValue(7)))
        d2 = FractionValue(7)
        if float(p2) != 7.0 or str(p2) != "7" or float(d2) != 7.0 or p1.GetFraction() is p2.GetFraction() or d1.GetFraction() is d2.GetFraction():
            ctx.fail("fractionless_values_share_their_fraction", case, "after editing the fraction of FractionValue '3' in place, parsing '7' gives %r (float %r), FractionValue(7) gives %r" % (p2, float(p2), d2))
        # equality is value based on the parts
        ctx.ev()
        if not (fa == self.make(a_spec)) or (fa != self.make(a_spec)):
            ctx.fail("equal_parts_not_equal", case, "two FractionValues built from %r are not ==" % (a_spec,))
        dc = self.digit_class(a_spec)
        ctx.cls("value_%s_%s_%s" % dc)
        if a_spec[1] != 0 and not float(a_spec[0]).is_integer():
            ctx.nontrivial(("value", dc, a_spec[2]), case if len(ctx.samples) < 5 else None)

    def check_from_float(self, case):
        from barril.basic.fraction import FractionValue

        ctx = self.ctx
        v = case["v"]
        ctx.ev()
        fv = FractionValue.CreateFromFloat(v)
        got = float(fv)
        cls = "tiny_exponent_notation" if 0 < abs(v) < 1e-4 else ("fractional" if v % 1 else "integral")
        ctx.cls("from_float_%s" % cls)
        if not core.close(got, v, abs(v), 1e-9):
            # bug model of the known finding: for |v| < 1e-4 the text of v is in exponent notation and its
            # leading mantissa digit is taken for the integer part
            key = "from_float_wrong:%s" % cls
            if cls == "tiny_exponent_notation":
                t = repr(abs(v))
                pos = t.find(".")
                predicted = math.copysign(float("0." + t[pos + 1 :]), v)
                if core.close(got, predicted, abs(predicted), 1e-6):
                    key = "from_float_wrong:tiny_exponent_notation:leading_digit_dropped"
                else:
                    key = "from_float_wrong:tiny_exponent_notation:other"
            ctx.fail(key, case, "float(CreateFromFloat(%r)) = %r (%r)" % (v, got, fv))
        if v % 1:
            ctx.nontrivial(("from_float", cls, len(repr(v))), case if len(ctx.samples) < 8 else None)


def value_strategies():
    digits6 = st.integers(1, 999999)

    @st.composite
    def number(draw):
        k = draw(st.sampled_from(["int", "int", "dec", "dec", "zero"]))
        if k == "zero":
            return draw(st.sampled_from([0, 0.0]))
        sign = draw(st.sampled_from([1, 1, -1]))
        if k == "int":
            n = draw(st.integers(1, 999999))
            return sign * (n if draw(st.booleans()) else float(n))
        m = draw(digits6)
        # m * 10^-e with <= 6 significant digits, inside [1e-4, 1e6)
        nd = len(str(m))
        e = draw(st.integers(max(0, nd - 6), nd + 3))
        x = float(Decimal(m).scaleb(-e))
        if not (1e-4 <= abs(x) < 1e6):
            x = float(m % 1000) / 100.0 or 1.5
        return sign * x

    @st.composite
    def spec(draw):
        num_kind = draw(st.sampled_from(["int", "int", "dec", "zero"]))
        den = draw(st.one_of(st.sampled_from([2, 4, 8, 16, 32, 64, 3, 7, 10]), st.integers(1, 999)))
        if num_kind == "zero":
            num = 0
        elif num_kind == "int":
            num = draw(st.integers(1, 99999)) * draw(st.sampled_from([1, 1, -1]))
            if draw(st.booleans()):
                num = float(num)
        else:
            num = float(Decimal(draw(st.integers(1, 99999))).scaleb(-draw(st.integers(1, 2)))) * draw(st.sampled_from([1, -1]))
        # the reduced fraction must print exactly with %g: numerator and denominator below 1e6
        red = dec(num) / den
        if abs(red.numerator) >= 10**6 or red.denominator >= 10**6:
            num, den = 1, 2
        return (draw(number()), num, den)

    @st.composite
    def from_float(draw):
        nd = draw(st.integers(1, 8))
        m = draw(st.integers(10 ** (nd - 1), 10**nd - 1))
        e = draw(st.integers(-12, 12 - nd + 1))
        v = float("%de%d" % (m, e))
        return {"v": -v if draw(st.booleans()) else v}

    return st.tuples(spec(), spec()).map(lambda t: {"a": t[0], "b": t[1]}), from_float()


# =============================================================================================
# (B) Fraction arithmetic against fractions.Fraction


class FractionChecker:
    def __init__(self, ctx):
        self.ctx = ctx

    def mk(self, s):
        from barril.basic.fraction import Fraction

        if s[0] == "frac":
            return Fraction(s[1], s[2]), dec(s[1]) / dec(s[2])
        return s[1], dec(s[1])

    def check(self, case):
        """case: a, b operands ("frac", num, den) | ("num", x); op"""
        from barril.basic.fraction import Fraction

        ctx = self.ctx
        a, ea = self.mk(tuple(case["a"]))
        b, eb = self.mk(tuple(case["b"]))
        op = case["op"]
        if not isinstance(a, Fraction) and not isinstance(b, Fraction):
            return
        ctx.ev()

        def val(r):
            if isinstance(r, Fraction):
                return fractions.Fraction(r.numerator) / fractions.Fraction(r.denominator)
            return r

        try:
            if op == "+":
                got, want = a + b, ea + eb
            elif op == "-":
                got, want = a - b, ea - eb
            elif op == "*":
                got, want = a * b, ea * eb
            elif op == "/":
                if eb == 0:
                    return
                got, want = a / b, ea / eb
            elif op == "%":
                if eb == 0 or not isinstance(a, Fraction):
                    return
                got, want = a % b, ea % eb
            elif op == "abs":
                if not isinstance(a, Fraction):
                    return
                got, want = abs(a), abs(ea)
            elif op == "neg":
                if not isinstance(a, Fraction):
                    return
                got, want = -a, -ea
            elif op == "pow":
                n = case["n"]
                if not isinstance(a, Fraction) or (n < 0 and ea == 0):
                    return
                got, want = a**n, ea**n
            elif op in ("iadd", "isub", "imul", "itruediv"):
                if not isinstance(a, Fraction) or (op == "itruediv" and eb == 0):
                    return
                before = float(a)
                alias = a
                if op == "iadd":
                    a += b
                    want = ea + eb
                elif op == "isub":
                    a -= b
                    want = ea - eb
                elif op == "imul":
                    a *= b
                    want = ea * eb
                else:
                    a /= b
                    want = ea / eb
                got = a
                if float(a) != float(want):
                    ctx.fail("float_stale_after_augmented_assignment:%s" % op, case, "float() was %r; after %s with %r the fraction is %r but float() = %r (expected %r)" % (before, op, b, a, float(a), float(want)))
                if alias is not a and float(alias) != before:
                    ctx.fail("augmented_assignment_changed_the_other_name", case, "%s rebound the name but the old object now floats to %r (was %r)" % (op, float(alias), before))
            elif op == "float":
                if not isinstance(a, Fraction):
                    return
                got, want = float(a), float(ea)
            else:
                rel = {"==": ea == eb, "!=": ea != eb, "<": ea < eb, "<=": ea <= eb, ">": ea > eb, ">=": ea >= eb}[op]
                r = {"==": lambda: a == b, "!=": lambda: a != b, "<": lambda: a < b, "<=": lambda: a <= b, ">": lambda: a > b, ">=": lambda: a >= b}[op]()
                if bool(r) != rel:
                    ctx.fail("fraction_comparison_wrong:%s:%s" % (op, "number_left" if not isinstance(a, Fraction) else ("number_right" if not isinstance(b, Fraction) else "fractions")), case, "%r %s %r gives %r, exact %s %s %s is %r" % (a, op, b, r, ea, op, eb, rel))
                ctx.cls("fraction_cmp")
                return
        except Exception as e:
            where = core.tree_frame(e)
            if where is None:
                raise
            ctx.fail("fraction_op_raises:%s:%s" % (op, type(e).__name__), case, "%r %s %r raised %s: %s" % (a, op, b, type(e).__name__, str(e)[:200]))
            return
        g = val(got)
        if op == "float":
            ok = g == want
        else:
            if not isinstance(got, Fraction):
                ctx.fail("fraction_op_result_type:%s" % op, case, "%r %s %r returned %r" % (a, op, b, got))
                return
            ok = g == want
        if not ok:
            side = "number_left" if not isinstance(a, Fraction) else ("number_right" if not isinstance(b, Fraction) else "fractions")
            ctx.fail("fraction_arithmetic_wrong:%s:%s" % (op, side), case, "%r %s %r = %r, exact rational arithmetic gives %s" % (a, op, case.get("n", b), got, want))
        ctx.cls("fraction_op_%s" % op)
        if isinstance(a, Fraction) and not float(tuple(case["a"])[1]).is_integer():
            ctx.nontrivial(("fraction", op, "dec"))
        elif not isinstance(a, Fraction) or not isinstance(b, Fraction):
            ctx.nontrivial(("fraction", op, "number operand"), case if len(ctx.samples) < 8 else None)


def fraction_strategy():
    num = st.one_of(st.integers(-999, 999), st.integers(-99999, 99999).map(lambda k: k / 100.0), st.integers(-99999, 99999))
    den = st.one_of(st.integers(1, 999), st.sampled_from([2, 4, 8, 16, 3, 10]), st.integers(1, 99).map(lambda k: k / 4.0))
    frac = st.tuples(st.just("frac"), num, den)
    plain = st.tuples(st.just("num"), st.one_of(st.integers(-50, 50), st.integers(-9999, 9999).map(lambda k: k / 100.0)))
    operand = st.one_of(frac, frac, frac, plain)
    ops = st.sampled_from(["+", "-", "*", "/", "%", "abs", "neg", "pow", "float", "==", "!=", "<", "<=", ">", ">=", "iadd", "isub", "imul", "itruediv"])
    return st.tuples(operand, operand, ops, st.integers(-4, 4)).map(lambda t: {"a": t[0], "b": t[1], "op": t[2], "n": t[3]})


# =============================================================================================
# (C) FractionScalar against Scalar


def normalise(a):
    """barril's documented numerator normalisation (absolute 1e-8 threshold), as a model"""
    b = 1.0
    k = 0
    while abs(a - round(a)) > 1e-8 and k < 400:
        a *= 10
        b *= 10
        k += 1
    return round(a) / b


class ScalarChecker:
    def __init__(self, ctx, db):
        self.ctx = ctx
        self.db = db
        self.um = UnitModel(db)
        cats = {}
        for c in db.IterCategories():
            cats.setdefault(db.GetCategoryQuantityType(c), []).append(c)
        self.cats = cats

    def check(self, case):
        """case: qt, u, v, c, number, num, den, y (other value for comparisons)"""
        from barril.basic.fraction import Fraction, FractionValue
        from barril.units import FractionScalar, Scalar

        ctx, db, um = self.ctx, self.db, self.um
        qt, u, v, c = case["qt"], case["u"], case["v"], case["c"]
        number, num, den = case["number"], case["num"], case["den"]
        fv = FractionValue(number, Fraction(num, den))
        num, den = fv.GetFraction().numerator, fv.GetFraction().denominator  # the library keeps the reduced fraction
        x = float(fv)
        fs = FractionScalar(fv, u, c)
        sc = Scalar(x, u, c)
        ratio = um.slope[u] / um.slope[v]
        # conversion
        ctx.ev()
        got_fv = fs.GetValue(v)
        got = float(got_fv)
        want = sc.GetValue(v)
        S = um.conv_scale(u, v, x) + abs(want)
        conv_num = num * ratio
        slack = 2e-8 * abs(conv_num / den)
        aff = um.offset[u] != 0 or um.offset[v] != 0
        # the threshold band: the library computes the converted numerator its own way, so at |numerator'| ~ 1e-8
        # (1 mPa in bar, 10 C/m3 in C/mm3, ...) either side of the threshold may be taken
        tiny = 0 < abs(conv_num) < 2e-8
        if not core.close(got, want, S, 1e-12, slack):
            key = "fraction_scalar_conversion_differs_from_scalar:%s" % ("affine" if aff else "scale")
            if tiny:
                # the known finding's bug model: a converted numerator below the 1e-8 threshold is dropped
                predicted = db.Convert(qt, u, v, float(number)) + (normalise(conv_num) if abs(conv_num) < 0.5e-8 else 0.0) / den
                if core.close(got, predicted, S, 1e-12):
                    key = "fraction_scalar_conversion:converted_numerator_below_1e-8_dropped"
            ctx.record(key, case, "FractionScalar(%r, %r).GetValue(%r) = %r (%r); Scalar(%r, %r).GetValue(%r) = %r" % (fv, u, v, got_fv, got, x, u, v, want))
        # db.Convert with a FractionValue
        ctx.ev()
        r = db.Convert(qt, u, v, fv)
        if u != v and not core.close(float(r), want, S, 1e-12, slack) and not tiny:
            ctx.record("db_convert_fraction_value_differs", case, "db.Convert(%r,%r,%r,%r) = %r, Scalar route %r" % (qt, u, v, fv, r, want))
        if got_fv.__class__ is not FractionValue:
            ctx.record("fraction_scalar_getvalue_type", case, "GetValue returned %r" % type(got_fv))
        # the public classmethod called directly: the amount is in `from_unit`, whatever unit the quantity object that
        # comes along happens to carry (only its categories matter), and the quantity type may be given by name
        if u != v and not tiny:
            from barril.units import ObtainQuantity

            for how, q in (("quantity in the target unit", ObtainQuantity(v, c)), ("quantity in the source unit", ObtainQuantity(u, c)), ("quantity type name", qt)):
                ctx.ev()
                d = FractionScalar.ConvertFractionValue(fv, q, u, v)
                if not core.close(float(d), want, S, 1e-12, slack):
                    ctx.record("convert_fraction_value_classmethod_differs:%s" % how.replace(" ", "_"), case, "FractionScalar.ConvertFractionValue(%r, <%s>, %r, %r) = %r (%r), Scalar route %r" % (fv, how, u, v, d, float(d), want))
        # comparisons: other value y in unit v, clearly separated from x (base amounts)
        A = um.offset[u] + um.slope[u] * x
        for sign in (1.0, -1.0):
            scale = abs(um.offset[u]) + abs(um.slope[u] * x) + abs(um.offset[v])
            B = A + sign * (1e-5 * scale if scale > 0 else um.slope[v])
            y = (B - um.offset[v]) / um.slope[v]
            if not math.isfinite(y) or (0 < abs(conv_num) < 1e-8 * 1e5 and num != 0):
                continue
            fo, so = FractionScalar(FractionValue(number=y), v, c), Scalar(y, v, c)
            for name, f in (("lt", lambda p, q: p < q), ("le", lambda p, q: p <= q), ("gt", lambda p, q: p > q), ("ge", lambda p, q: p >= q)):
                ctx.ev()
                a1, a2 = f(fs, fo), f(sc, so)
                b1, b2 = f(fo, fs), f(so, sc)
                if bool(a1) != bool(a2) or bool(b1) != bool(b2):
                    ctx.record("fraction_scalar_comparison_differs_from_scalar:%s" % name, dict(case, y=y), "%r %s %r: FractionScalar says %r/%r, Scalar says %r/%r" % (fs, name, fo, a1, b1, a2, b2))
        ctx.cls("scalar_pairs_affine" if aff else "scalar_pairs_scale")
        if u != v:
            ctx.nontrivial(("fscalar", qt, u, v), case if len(ctx.samples) < 6 and aff else None)

    def check_validity(self, case):
        """FractionScalar.IsValid agrees with Scalar.IsValid on a category with limits"""
        from barril.basic.fraction import Fraction, FractionValue
        from barril.units import FractionScalar, Scalar

        ctx = self.ctx
        from barril.units.exceptions import QuantityValidationError

        def verdict(o):
            try:
                o.CheckValidity()
                return (o.IsValid(), None)
            except QuantityValidationError as e:
                return (o.IsValid(), (e.operator, e.limit_value))

        # objects created before their category is re-registered with other limits keep the definition they were
        # created under - a FractionScalar exactly like a Scalar
        if case.get("redefine"):
            fvr = FractionValue(case["number"], Fraction(case["num"], case["den"]))
            pairs = [(FractionScalar(fvr, u, "bv c18 band"), Scalar(float(fvr), u, "bv c18 band")) for u in ("m", "cm", "ft")]
            # (equality, like validity, is a matter of amounts: a FractionScalar of another, untouched category made
            # before the re-registration equals one made after it, exactly like the Scalars)
            eq_before = (FractionScalar(fvr, "in", "length"), Scalar(float(fvr), "in", "length"))
            self.db.AddCategory("bv c18 band", "length", override=True, min_value=0.0, max_value=1000.0, default_unit="m", default_value=0.5)
            eq_after = (FractionScalar(FractionValue(case["number"], Fraction(case["num"], case["den"])), "in", "length"), Scalar(float(fvr), "in", "length"))
            ctx.ev()
            if (eq_before[0] == eq_after[0]) != (eq_before[1] == eq_after[1]) or (eq_before[0] != eq_after[0]) != (eq_before[1] != eq_after[1]):
                ctx.fail("fraction_scalar_equality_differs_from_scalar:across_a_category_redefinition", dict(case), "%r made before and %r made after another category was re-registered: == is %r, for the Scalars %r" % (eq_before[0], eq_after[0], eq_before[0] == eq_after[0], eq_before[1] == eq_after[1]))
            try:
                for fo, so in pairs:
                    ctx.ev()
                    if verdict(fo) != verdict(so):
                        ctx.fail("fraction_scalar_validity_differs_from_scalar:after_category_was_redefined", dict(case, u=fo.GetUnit()), "created before 'bv c18 band' was re-registered with other limits: %r -> %r, %r -> %r" % (fo, verdict(fo), so, verdict(so)))
            finally:
                self.db.AddCategory("bv c18 band", "length", override=True, min_value=0.05, max_value=1.0, default_unit="m", default_value=0.5)
            ctx.cls("validity_after_redefinition_checked")
        for cat, units, _k in LIMITED:
            for u in units:
                # the generated number as it is, and brought into the neighbourhood of the limits in this unit
                mid = self.db.Convert(cat, self.db.GetDefaultUnit(cat), u, self.db.GetDefaultValue(cat))
                for number in (case["number"], round(mid + (case["number"] % 7.0) - 3.0, 3)):
                    fv = FractionValue(number, Fraction(case["num"], case["den"]))
                    ctx.ev()
                    a = verdict(FractionScalar(fv, u, cat))
                    b = verdict(Scalar(float(fv), u, cat))
                    ctx.cls("validity_%s" % ("valid" if b[0] else "invalid"))
                    if a != b:
                        ctx.fail("fraction_scalar_validity_differs_from_scalar", dict(case, u=u, category=cat, number=number), "FractionScalar(%r,%r,%r): (IsValid, violated limit) = %r, Scalar(%r): %r" % (fv, u, cat, a, float(fv), b))
        ctx.cls("validity_checked")


LIMITED = [
    # (category, units to write the value in, scale that brings a generated number near the limits)
    ("bv c18 limited", ("m", "cm", "ft"), 1.0),
    ("bv c18 band", ("m", "cm", "in", "ft", "km"), 1.0),
    ("bv c18 warm", ("K", "degC", "degF"), 1.0),
]


def _register_limited(db):
    db.AddCategory("bv c18 limited", "length", min_value=0.0, max_value=100.0, is_max_exclusive=True, default_unit="m", default_value=1.0)
    db.AddCategory("bv c18 band", "length", min_value=0.05, max_value=1.0, default_unit="m", default_value=0.5)
    db.AddCategory("bv c18 warm", "temperature", min_value=250.0, max_value=300.0, default_unit="K", default_value=273.15)


def run_shard(spec, ctx):
    seed = spec["seed"] * 1000 + spec["shard"]
    tier = spec["tier"]
    if spec["part"] == "value":
        vc = ValueChecker(ctx)
        pair, ff = value_strategies()

        def t1():
            @given(pair)
            def test(case):
                core.guarded(ctx, vc.check_value, case)

            return test

        def t2():
            @given(ff)
            def test(case):
                core.guarded(ctx, vc.check_from_float, case)

            return test

        core.hunt(ctx, t1, seed, spec["n"])
        core.hunt(ctx, t2, seed + 1, spec["n"])
        return
    if spec["part"] == "fraction":
        fc = FractionChecker(ctx)

        def t():
            @given(fraction_strategy())
            def test(case):
                core.guarded(ctx, fc.check, case)

            return test

        core.hunt(ctx, t, seed, spec["n"], max_root_causes=8)
        return
    if spec["part"] == "scalar_project":
        # units registered by the user at run time (string formulas and plain callables, with and without offsets):
        # a FractionScalar converts like the Scalar holding float(value) there too
        from bv.props import c02

        pdb = c02.variant_db()
        pdb.AddUnit("temperature", "Reaumur-like", "degRe", lambda x: (x - 100.0) * 0.8, lambda x: x / 0.8 + 100.0)
        pdb.AddUnit("length", "gauge length", "m(g)", "%f - 10.0", "%f + 10.0")
        with env.pushed(pdb):
            sc = ScalarChecker(ctx, pdb)
            fr = st.tuples(st.one_of(st.integers(0, 999), st.integers(1, 99999).map(lambda k: k / 100.0)), st.integers(0, 99), st.sampled_from([2, 4, 8, 3, 7]), st.sampled_from([1, 1, -1]))

            def tp():
                @given(fr)
                def test(f1):
                    number, num, den, sign = f1
                    for qt in sorted(pdb.quantity_types):
                        units = [i.unit for i in pdb.quantity_types[qt]]
                        for u in units:
                            for v in units:
                                for c in sc.cats[qt]:
                                    sc.check({"qt": qt, "u": u, "v": v, "c": c, "number": sign * number, "num": num, "den": den, "db": "project"})
                    ctx.cls("project_database_sweeps")

                return test

            core.hunt(ctx, tp, seed, 6 if tier == "quick" else 60, shrink=False)
        ctx.exhaustive["FractionScalar vs Scalar on a run-time registered database (affine units by string formula and by callable)"] = "all pairs"
        return
    db = env.new_db("posc")
    _register_limited(db)
    with env.pushed(db):
        sc = ScalarChecker(ctx, db)
        items, weights = [], []
        for qt in sorted(db.quantity_types):
            if qt == "Unknown" or qt not in sc.cats:
                continue
            n = len(db.quantity_types[qt])
            for info in db.quantity_types[qt]:
                items.append((qt, info.unit))
                weights.append(n if tier == "thorough" else 1)
        mine = partition(items, weights, spec["n"])[spec["i"]]
        thorough = tier == "thorough"
        ctx.exhaustive["ordered unit pairs per quantity type (FractionScalar vs Scalar)"] = "all" if thorough else "one rotation per draw"
        fr = st.tuples(st.one_of(st.integers(0, 999), st.integers(1, 99999).map(lambda k: k / 100.0)), st.integers(0, 99), st.sampled_from([2, 4, 8, 16, 3, 7, 64]), st.sampled_from([1, 1, -1]))

        def t():
            @given(fr, fr, st.lists(st.integers(1, 400), min_size=2, max_size=2))
            def test(f1, f2, rots):
                for k, (qt, u) in enumerate(mine):
                    if ctx.out_of_time():
                        return
                    units = [i.unit for i in db.quantity_types[qt]]
                    cats = sc.cats[qt]
                    iu = units.index(u)
                    vs = units if thorough else sorted(set(units[(iu + r) % len(units)] for r in rots)) + [w for w in units if sc.um.offset[w] != 0][:3]
                    for j, v in enumerate(vs):
                        number, num, den, sign = f1 if (k + j) % 2 else f2
                        sc.check({"qt": qt, "u": u, "v": v, "c": cats[(k + j) % len(cats)], "number": sign * number, "num": num, "den": den})
                sc.check_validity({"number": f1[0] % 150, "num": f1[1], "den": f1[2]})
                sc.check_validity({"number": 99, "num": f2[1], "den": f2[2]})
                for k in range(12):
                    sc.check_validity({"number": round((f1[0] * (k + 1) * 0.37) % 11.0, 2), "num": (f1[1] if k % 2 else f2[1]), "den": (f1[2] if k % 2 else f2[2]), "redefine": k % 4 == 0})

            return test

        core.hunt(ctx, t, seed, 3 if not thorough else 6, shrink=False)


def replay(case, ctx):
    if "v" in case and "u" not in case:
        return core.replay_guarded(ctx, ValueChecker(ctx).check_from_float, case)
    if "op" in case:
        return core.replay_guarded(ctx, FractionChecker(ctx).check, case)
    if "a" in case:
        return core.replay_guarded(ctx, ValueChecker(ctx).check_value, case)
    if case.get("db") == "project":
        from bv.props import c02

        pdb = c02.variant_db()
        pdb.AddUnit("temperature", "Reaumur-like", "degRe", lambda x: (x - 100.0) * 0.8, lambda x: x / 0.8 + 100.0)
        pdb.AddUnit("length", "gauge length", "m(g)", "%f - 10.0", "%f + 10.0")
        with env.pushed(pdb):
            sc = ScalarChecker(ctx, pdb)
            sc.check(case)
        return ["%s: %s" % (k, v["msg"]) for k, v in ctx.violations.items()]
    db = env.new_db("posc")
    _register_limited(db)
    with env.pushed(db):
        sc = ScalarChecker(ctx, db)
        if "qt" in case:
            sc.check(case)
            return ["%s: %s" % (k, v["msg"]) for k, v in ctx.violations.items()]
        return core.replay_guarded(ctx, sc.check_validity, case)
