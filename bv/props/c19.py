"""C19 — equivalent construction forms build equal objects."""
from hypothesis import given, strategies as st

from bv import core, env, gen, snapshot
from bv.util import partition

PID = "C19"
RULE = (
    "Exhaustive over all table units u (1548) with the default category read from the unit table itself (the row's "
    "default_category, else the quantity type), all categories (328) and all (category, unit) pairs of one quantity "
    "type (6322), for X in Scalar, Array (list, tuple, ndarray), FixedArray, FractionScalar: the forms X(v,u), "
    "X(v,u,c), X(c,v,u), X((v,u)) (Scalar), keyword forms, X(ObtainQuantity(u,c), v), X.CreateWithQuantity(q, v) must be "
    "mutually == (equal hash for Scalar); explicit-category forms for every category of the type are built first and "
    "the no-category forms afterwards and once more at the end (history independence of the default-category "
    "resolution); db.GetDefaultCategory(u) equals the table's entry; X(c) == X(default value, default unit, c) for "
    "Scalar/FractionScalar (Array: empty container, FixedArray: unit and category); eval(repr(Scalar)) == Scalar for "
    "finite values, also for a subclass of Scalar; a unit with its own default category registered at run time in every "
    "order relative to the categories and to early construction attempts ends with all forms equal. Values are Hypothesis-generated per sweep. Scalars built from numbers that are not floats (Fraction, Decimal, 2**53+1, bool, numpy scalars) agree across all forms with the Scalar of float(value). Non-trivial = unit whose default category comes from a "
    "per-row default_category or differs from the quantity type name, or a category other than the default one; "
    "key = (class, form, unit, category)."
)
ASSUMPTIONS = ["finite values whose repr round-trips", "FixedArray built from a category alone is compared by unit, category and dimension only (its zero vector is not a category default value)"]
BUDGET_S = {"quick": 150, "thorough": 1200}
EXHAUSTIVE = True


def plan(tier, seed):
    n = 8 if tier == "quick" else 16
    return [{"tier": tier, "seed": seed, "i": i, "n": n, "draws": 3 if tier == "quick" else 24} for i in range(n)]


class Checker:
    def __init__(self, ctx, db):
        self.ctx = ctx
        self.db = db
        cats = {}
        for c in db.IterCategories():
            cats.setdefault(db.GetCategoryQuantityType(c), []).append(c)
        self.cats = cats

    def all_equal(self, objs, case, cls, with_hash=False):
        ctx = self.ctx
        (n0, o0) = objs[0]
        for name, o in objs[1:]:
            ctx.ev()
            if not (o == o0) or (o != o0) or not (o0 == o):
                ctx.record("forms_not_equal:%s:%s_vs_%s" % (cls, n0, name), dict(case, cls=cls, forms=[n0, name]), "%s: form %s gives %r, form %s gives %r (unit %r, category %r)" % (cls, n0, o0, name, o, case["u"], case["c"]))
            elif with_hash and hash(o) != hash(o0):
                ctx.record("equal_forms_hash_differs:%s" % cls, dict(case, cls=cls, forms=[n0, name]), "%s forms %s and %s are equal but hash differently" % (cls, n0, name))
            if type(o) is not type(o0):
                ctx.record("forms_type_differs:%s" % cls, dict(case, cls=cls), "form %s built a %s" % (name, type(o).__name__))

    def build(self, u, c, x, y, explicit_only):
        """{class: [(form, object)]}; explicit_only: forms that name the category"""
        import numpy

        from barril.basic.fraction import Fraction, FractionValue
        from barril.units import Array, FixedArray, FractionScalar, ObtainQuantity, Scalar

        q = ObtainQuantity(u, c)
        fv = lambda: FractionValue(x, Fraction(1, 2))
        out = {}
        out["Scalar"] = [
            ("(v,u,c)", Scalar(x, u, c)),
            ("(c,v,u)", Scalar(c, x, u)),
            ("(q,v)", Scalar(q, x)),
            ("CreateWithQuantity", Scalar.CreateWithQuantity(q, x)),
            ("kw(value,unit,category)", Scalar(value=x, unit=u, category=c)),
            ("kw(category,value,unit)", Scalar(category=c, value=x, unit=u)),
        ]
        out["FractionScalar"] = [
            ("(v,u,c)", FractionScalar(fv(), u, c)),
            ("(c,v,u)", FractionScalar(c, fv(), u)),
            ("(q,v)", FractionScalar(q, fv())),
            ("CreateWithQuantity", FractionScalar.CreateWithQuantity(q, fv())),
            ("kw", FractionScalar(value=fv(), unit=u, category=c)),
        ]
        for kind in gen.CONTAINER_KINDS:
            mk = lambda: gen.as_container(kind, [x, y, x])
            out["Array[%s]" % kind] = [
                ("(values,u,c)", Array(mk(), u, c)),
                ("(c,values,u)", Array(c, mk(), u)),
                ("(q,values)", Array(q, mk())),
                ("CreateWithQuantity", Array.CreateWithQuantity(q, mk())),
                ("kw", Array(values=mk(), unit=u, category=c)),
            ]
            out["FixedArray[%s]" % kind] = [
                ("(n,values,u,c)", FixedArray(3, mk(), u, c)),
                ("(n,c,values,u)", FixedArray(3, c, mk(), u)),
                ("(n,q,values)", FixedArray(3, q, mk())),
                ("CreateWithQuantity", FixedArray.CreateWithQuantity(q, mk())),
                ("CreateWithQuantity(dimension)", FixedArray.CreateWithQuantity(q, mk(), dimension=3)),
            ]
        if not explicit_only:
            out["Scalar"] += [("(v,u)", Scalar(x, u)), ("((v,u))", Scalar((x, u))), ("(q(u),v)", Scalar(ObtainQuantity(u), x))]
            out["FractionScalar"] += [("(v,u)", FractionScalar(fv(), u)), ("(q(u),v)", FractionScalar(ObtainQuantity(u), fv()))]
            for kind in gen.CONTAINER_KINDS:
                mk = lambda: gen.as_container(kind, [x, y, x])
                out["Array[%s]" % kind] += [("(values,u)", Array(mk(), u)), ("(q(u),values)", Array(ObtainQuantity(u), mk()))]
                out["FixedArray[%s]" % kind] += [("(n,values,u)", FixedArray(3, mk(), u)), ("(n,q(u),values)", FixedArray(3, ObtainQuantity(u), mk()))]
        return out

    def check_unit(self, qt, u, x, y):
        """all categories of the type with explicit forms first, then the no-category forms"""
        from barril.units import Scalar

        ctx, db = self.ctx, self.db
        info = db.unit_to_unit_info[u]
        c_table = info.default_category or info.quantity_type
        cats = self.cats.get(qt, [])
        if c_table not in db.categories_to_quantity_types:
            ctx.record("table_default_category_not_registered", {"u": u, "c": c_table, "x": x, "y": y, "qt": qt}, "unit %r names default category %r which is not registered" % (u, c_table))
            return
        for c in cats:
            case = {"qt": qt, "u": u, "c": c, "x": x, "y": y, "phase": "explicit"}
            try:
                forms = self.build(u, c, x, y, explicit_only=True)
            except Exception as e:
                if core.tree_frame(e) is None:
                    raise
                ctx.record("form_raises:%s" % type(e).__name__, case, "a construction form raised %s: %s for unit %r category %r" % (type(e).__name__, str(e)[:200], u, c))
                continue
            for cls, objs in forms.items():
                self.all_equal(objs, case, cls.split("[")[0], with_hash=cls == "Scalar")
            s = forms["Scalar"][0][1]
            ctx.ev()
            try:
                back = eval(repr(s), {"Scalar": Scalar, "inf": float("inf"), "nan": float("nan")})
                if not (back == s):
                    ctx.record("repr_does_not_evaluate_back", case, "eval(%r) gives %r" % (repr(s), back))
            except Exception as e:
                ctx.record("repr_does_not_evaluate:%s" % type(e).__name__, case, "eval(%r) raised %s: %s" % (repr(s), type(e).__name__, e))
            # values given as numpy numbers build the same Scalar, and its repr evaluates back as well
            import numpy

            for nv in (numpy.float64(x), numpy.float32(1.5), numpy.int64(3)):
                ctx.ev()
                sn = Scalar(nv, u, c)
                if not (sn == Scalar(float(nv), u, c)):
                    ctx.record("numpy_value_builds_other_scalar:%s" % type(nv).__name__, case, "Scalar(%r,%r,%r) = %r differs from the one built from float(value)" % (nv, u, c, sn))
                try:
                    back = eval(repr(sn), {"Scalar": Scalar, "inf": float("inf"), "nan": float("nan")})
                    if not (back == sn):
                        ctx.record("repr_does_not_evaluate_back:numpy value", case, "eval(%r) gives %r" % (repr(sn), back))
                except Exception as e:
                    ctx.record("repr_does_not_evaluate:numpy value:%s" % type(e).__name__, case, "eval(%r) raised %s: %s" % (repr(sn), type(e).__name__, e))
            if c == cats[0] or c == c_table:
                # values that are numbers but not floats: every form stores the same amount, float(value)
                from decimal import Decimal
                from fractions import Fraction as PyFraction

                from barril.units import ObtainQuantity

                q_ = ObtainQuantity(u, c)
                for nv in (PyFraction(1, 3), Decimal("0.1"), 2**53 + 1, True, numpy.float32(0.1), numpy.int64(7)):
                    ctx.ev()
                    try:
                        objs = [
                            ("float(value)", Scalar(float(nv), u, c)),
                            ("(v,u,c)", Scalar(nv, u, c)),
                            ("(c,v,u)", Scalar(c, nv, u)),
                            ("(q,v)", Scalar(q_, nv)),
                            ("CreateWithQuantity(q,v)", Scalar.CreateWithQuantity(q_, nv)),
                            ("CreateWithQuantity(q,value=v)", Scalar.CreateWithQuantity(q_, value=nv)),
                            ("kw(value,unit,category)", Scalar(value=nv, unit=u, category=c)),
                        ]
                    except Exception as e:
                        if core.tree_frame(e) is None:
                            raise
                        ctx.record("form_raises:%s:%s value" % (type(e).__name__, type(nv).__name__), case, "a Scalar form raised %s: %s for the value %r" % (type(e).__name__, str(e)[:160], nv))
                        continue
                    self.all_equal(objs, dict(case, value_kind=type(nv).__name__), "Scalar", with_hash=True)
                    ctx.cls("non_float_values")
            if c != c_table:
                ctx.nt_disjoint += 1
        # the forms that leave the category out, after every other category of the type has been used
        for phase in ("default", "default_again"):
            case = {"qt": qt, "u": u, "c": c_table, "x": x, "y": y, "phase": phase}
            ctx.ev()
            got = db.GetDefaultCategory(u)
            if got != c_table:
                ctx.record("default_category_differs_from_table", case, "GetDefaultCategory(%r) = %r, the unit table says %r" % (u, got, c_table))
            try:
                forms = self.build(u, c_table, x, y, explicit_only=False)
            except Exception as e:
                if core.tree_frame(e) is None:
                    raise
                ctx.record("form_raises:%s" % type(e).__name__, case, "a construction form raised %s: %s for unit %r (default category %r)" % (type(e).__name__, str(e)[:200], u, c_table))
                continue
            for cls, objs in forms.items():
                self.all_equal(objs, case, cls.split("[")[0], with_hash=cls == "Scalar")
        if info.default_category or c_table != qt:
            ctx.nt_disjoint += 1
            ctx.cls("units_with_row_default_category")
        if len(ctx.samples) < 4 and info.default_category:
            ctx.sample({"unit": u, "default_category": c_table, "quantity_type": qt, "categories_of_type": cats[:4], "x": x})
        ctx.cls("units_checked")
        ctx.cls("category_unit_pairs_checked", len(cats))

    def check_category(self, c):
        from barril.units import Array, FixedArray, FractionScalar, Scalar

        ctx, db = self.ctx, self.db
        info = db.GetCategoryInfo(c)
        du, dv = info.default_unit, info.default_value
        case = {"c": c, "u": du, "x": dv, "y": 0.0, "qt": info.quantity_type, "phase": "category_only"}
        try:
            pairs = [
                ("Scalar", Scalar(c), Scalar(dv, du, c)),
                ("FractionScalar", FractionScalar(c), FractionScalar(dv, du, c)),
                ("Array", Array(c), Array([], du, c)),
            ]
            fa = FixedArray(3, c)
        except Exception as e:
            if core.tree_frame(e) is None:
                raise
            ctx.record("category_only_form_raises:%s" % type(e).__name__, case, "building from category %r alone raised %s: %s" % (c, type(e).__name__, str(e)[:200]))
            return
        for cls, a, b in pairs:
            ctx.ev()
            if not (a == b):
                ctx.record("category_only_differs:%s" % cls, dict(case, cls=cls), "%s(%r) = %r, %s(default value, default unit, category) = %r" % (cls, c, a, cls, b))
        ctx.ev()
        if fa.GetUnit() != du or fa.GetCategory() != c or fa.dimension != 3:
            ctx.record("category_only_differs:FixedArray", case, "FixedArray(3, %r) = %r" % (c, fa))
        # the same with another unit of the type: value is the default value converted (C02 checks the number)
        ctx.cls("categories_checked")


def check_runtime_registration(ctx):
    """Units and categories registered by the user at run time, in every order of (a) registering the category named
    like the quantity type, (b) registering the unit's own default category, (c) attempting the no-category forms early:
    once everything is registered all forms agree, whatever was attempted before."""
    import itertools

    from barril.units import Array, ObtainQuantity, Scalar, UnitDatabase

    steps = ["cat_qt", "cat_default", "attempt"]
    for order in itertools.permutations(steps):
        for extra_attempts in (0, 1):
            db = UnitDatabase()
            with env.pushed(db):
                db.AddUnitBase("bvq", "bv base", "bvb")
                db.AddUnit("bvq", "bv unit", "bvu", "%f * 4.0", "%f / 4.0", default_category="bv own category")

                def attempt():
                    for f in (lambda: Scalar(1.5, "bvu"), lambda: Scalar((1.5, "bvu")), lambda: Array([1.5], "bvu"), lambda: ObtainQuantity("bvu")):
                        try:
                            f()
                        except Exception as e:
                            if core.tree_frame(e) is None:
                                raise

                for st_ in order:
                    if st_ == "cat_qt":
                        db.AddCategory("bvq", "bvq")
                    elif st_ == "cat_default":
                        db.AddCategory("bv own category", "bvq")
                    else:
                        attempt()
                        if extra_attempts:
                            attempt()
                case = {"phase": "runtime", "order": list(order), "extra": extra_attempts}
                ctx.ev()
                try:
                    forms = [
                        ("(v,u)", Scalar(1.5, "bvu")),
                        ("((v,u))", Scalar((1.5, "bvu"))),
                        ("(v,u,c)", Scalar(1.5, "bvu", "bv own category")),
                        ("(c,v,u)", Scalar("bv own category", 1.5, "bvu")),
                        ("(q,v)", Scalar(ObtainQuantity("bvu", "bv own category"), 1.5)),
                        ("(q(u),v)", Scalar(ObtainQuantity("bvu"), 1.5)),
                        ("CreateWithQuantity", Scalar.CreateWithQuantity(ObtainQuantity("bvu", "bv own category"), 1.5)),
                    ]
                except Exception as e:
                    if core.tree_frame(e) is None:
                        raise
                    ctx.record("runtime_registration_form_raises:%s" % type(e).__name__, case, "after registering in order %r a construction form raised %s: %s" % (order, type(e).__name__, str(e)[:120]))
                    continue
                n0, o0 = forms[0]
                for name, o in forms[1:]:
                    if not (o == o0):
                        ctx.record("runtime_registration_forms_not_equal:%s_vs_%s" % (n0, name), case, "registration order %r: %s gives %r, %s gives %r" % (order, n0, o0, name, o))
                        break
                if db.GetDefaultCategory("bvu") != "bv own category" or o0.GetCategory() != "bv own category":
                    ctx.record("runtime_registration_default_category", case, "order %r: default category of 'bvu' is %r, Scalar(v,u) has %r" % (order, db.GetDefaultCategory("bvu"), o0.GetCategory()))
                # the unit's category is registered once more with the identical definition (applications re-declare their
                # categories): objects built on a quantity taken before equal the forms built afterwards, and the forms
                # built while another database of the same content is current equal those built here
                q_before = ObtainQuantity("bvu", "bv own category")
                s_before = Scalar(1.5, "bvu")
                db.AddCategory("bv own category", "bvq", override=True)
                after = [("(q taken before,v)", Scalar(q_before, 1.5)), ("(v,u) after", Scalar(1.5, "bvu")), ("(v,u,c) after", Scalar(1.5, "bvu", "bv own category")), ("eval(repr)", eval(repr(Scalar(1.5, "bvu", "bv own category")), {"Scalar": Scalar}))]
                for name, o in after:
                    ctx.ev()
                    if not (o == s_before and s_before == o):
                        ctx.record("forms_not_equal_across_an_identical_re_registration:%s" % name, case, "order %r: Scalar(v,u) built before the category was registered again with the same definition is %r, %s is %r: not equal" % (order, s_before, name, o))
                        break
                arrs = [Array([1.5], "bvu"), Array([1.5], "bvu", "bv own category")]
                if not (arrs[0] == arrs[1]):
                    ctx.record("runtime_registration_forms_not_equal:Array", case, "order %r: Array(values,u) = %r, Array(values,u,c) = %r" % (order, arrs[0], arrs[1]))
                ctx.cls("runtime_registration_orders")
                ctx.nt_disjoint += 1


def check_subclass_repr(ctx):
    """a subclass of Scalar is a Scalar: its repr evaluates back to an equal object of the same class"""
    from barril.units import Scalar

    class BvDepth(Scalar):
        pass

    for v, u, c in ((1.5, "m", "length"), (-2.25, "ft", "depth"), (0.0, "degC", "temperature"), (1e-7, "cP", "dynamic viscosity")):
        for form in (BvDepth(v, u, c), BvDepth(v, u), BvDepth(c, v, u), BvDepth.CreateWithQuantity(Scalar(v, u, c).GetQuantity(), v), BvDepth(v, u, c).CreateCopy(unit=u)):
            ctx.ev()
            case = {"phase": "subclass_repr", "v": v, "u": u, "c": c}
            try:
                back = eval(repr(form), {"BvDepth": BvDepth, "Scalar": Scalar})
            except Exception as e:
                ctx.record("subclass_repr_does_not_evaluate:%s" % type(e).__name__, case, "eval(%r) raised %s" % (repr(form), type(e).__name__))
                continue
            if not (back == form) or type(back) is not type(form):
                ctx.record("subclass_repr_does_not_evaluate_back", case, "eval(%r) gives %r (%s), the original is a %s" % (repr(form), back, type(back).__name__, type(form).__name__))
    ctx.cls("subclass_repr_checked")


def run_shard(spec, ctx):
    if spec["i"] == 0:
        check_runtime_registration(ctx)
    db = env.new_db("posc")
    with env.pushed(db):
        ch = Checker(ctx, db)
        items, weights = [], []
        for qt in sorted(db.quantity_types):
            if qt == "Unknown":
                continue
            k = len(ch.cats.get(qt, [])) + 2
            for info in db.quantity_types[qt]:
                items.append((qt, info.unit))
                weights.append(k)
        mine = partition(items, weights, spec["n"])[spec["i"]]
        ctx.exhaustive["units x construction forms (default category)"] = "all %d units" % len(items)
        ctx.exhaustive["(category, unit) pairs of one quantity type x explicit forms"] = "all"
        ctx.exhaustive["categories (category-only form)"] = "all"
        reg0 = snapshot.registry_light(db)

        def t():
            @given(gen.finite_values(1e12, 1e-12), gen.moderate_values(1e-3, 1e3))
            def test(x, y):
                for qt, u in mine:
                    if ctx.out_of_time():
                        return
                    ch.check_unit(qt, u, x, y)

            return test

        core.hunt(ctx, t, spec["seed"] * 1000 + spec["shard"], spec["draws"], shrink=False)
        cats = sorted(db.IterCategories())
        for c in cats[spec["i"] :: spec["n"]]:
            ch.check_category(c)
        if spec["i"] == 1:
            check_subclass_repr(ctx)
        if snapshot.registry_light(db) != reg0:
            ctx.record("registry_changed_by_construction", {"phase": "registry"}, "constructing objects changed the registry")


def replay(case, ctx):
    if case.get("phase") == "runtime":
        check_runtime_registration(ctx)
        return ["%s: %s" % (k, v["msg"]) for k, v in ctx.violations.items()]
    db = env.new_db("posc")
    with env.pushed(db):
        ch = Checker(ctx, db)
        if case.get("phase") == "subclass_repr":
            check_subclass_repr(ctx)
        elif case.get("phase") == "category_only":
            ch.check_category(case["c"])
        elif "u" in case:
            ch.check_unit(case["qt"], case["u"], case["x"], case["y"])
    return ["%s: %s" % (k, v["msg"]) for k, v in ctx.violations.items()]
