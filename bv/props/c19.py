"""C19 — equivalent construction forms build equal objects."""
from hypothesis import given, strategies as st

from bv import core, env, gen, snapshot
from bv.util import partition

PID = "C19"
RULE = (
    "Exhaustive over all table units u (1548) with the default category read from the unit table itself (the row's "
    "default_category, else the quantity type), all categories (328) and all (category, unit) pairs of one quantity "
    "type (6322), for X in Scalar, Array (list, tuple, ndarray), FixedArray, FractionScalar: the forms X(v,u), "
    "X(v,u,c), X(c,v,u), X((v,u)) (Scalar), keyword forms, X(ObtainQuantity(u,c), v), X.CreateWithQuantity(q, v) must be "
    "mutually == (equal hash for Scalar); explicit-category forms for every category of the type are built first and "
    "the no-category forms afterwards and once more at the end (history independence of the default-category "
    "resolution); db.GetDefaultCategory(u) equals the table's entry; X(c) == X(default value, default unit, c) for "
    "Scalar/FractionScalar (Array: empty container, FixedArray: unit and category); eval(repr(Scalar)) == Scalar for "
    "finite values. Values are Hypothesis-generated per sweep. Non-trivial = unit whose default category comes from a "
    "per-row default_category or differs from the quantity type name, or a category other than the default one; "
    "key = (class, form, unit, category)."
)
ASSUMPTIONS = ["finite values whose repr round-trips", "FixedArray built from a category alone is compared by unit, category and dimension only (its zero vector is not a category default value)"]
BUDGET_S = {"quick": 150, "thorough": 1200}
EXHAUSTIVE = True


def plan(tier, seed):
    n = 8 if tier == "quick" else 16
    return [{"tier": tier, "seed": seed, "i": i, "n": n, "draws": 3 if tier == "quick" else 24} for i in range(n)]


class Checker:
    def __init__(self, ctx, db):
        self.ctx = ctx
        self.db = db
        cats = {}
        for c in db.IterCategories():
            cats.setdefault(db.GetCategoryQuantityType(c), []).append(c)
        self.cats = cats

    def all_equal(self, objs, case, cls, with_hash=False):
        ctx = self.ctx
        (n0, o0) = objs[0]
        for name, o in objs[1:]:
            ctx.ev()
            if not (o == o0) or (o != o0) or not (o0 == o):
                ctx.record("forms_not_equal:%s:%s_vs_%s" % (cls, n0, name), dict(case, cls=cls, forms=[n0, name]), "%s: form %s gives %r, form %s gives %r (unit %r, category %r)" % (cls, n0, o0, name, o, case["u"], case["c"]))
            elif with_hash and hash(o) != hash(o0):
                ctx.record("equal_forms_hash_differs:%s" % cls, dict(case, cls=cls, forms=[n0, name]), "%s forms %s and %s are equal but hash differently" % (cls, n0, name))
            if type(o) is not type(o0):
                ctx.record("forms_type_differs:%s" % cls, dict(case, cls=cls), "form %s built a %s" % (name, type(o).__name__))

    def build(self, u, c, x, y, explicit_only):
        """{class: [(form, object)]}; explicit_only: forms that name the category"""
        import numpy

        from barril.basic.fraction import Fraction, FractionValue
        from barril.units import Array, FixedArray, FractionScalar, ObtainQuantity, Scalar

        q = ObtainQuantity(u, c)
        fv = lambda: FractionValue(x, Fraction(1, 2))
        out = {}
        out["Scalar"] = [
            ("(v,u,c)", Scalar(x, u, c)),
            ("(c,v,u)", Scalar(c, x, u)),
            ("(q,v)", Scalar(q, x)),
            ("CreateWithQuantity", Scalar.CreateWithQuantity(q, x)),
            ("kw(value,unit,category)", Scalar(value=x, unit=u, category=c)),
            ("kw(category,value,unit)", Scalar(category=c, value=x, unit=u)),
        ]
        out["FractionScalar"] = [
            ("(v,u,c)", FractionScalar(fv(), u, c)),
            ("(c,v,u)", FractionScalar(c, fv(), u)),
            ("(q,v)", FractionScalar(q, fv())),
            ("CreateWithQuantity", FractionScalar.CreateWithQuantity(q, fv())),
            ("kw", FractionScalar(value=fv(), unit=u, category=c)),
        ]
        for kind in gen.CONTAINER_KINDS:
            mk = lambda: gen.as_container(kind, [x, y, x])
            out["Array[%s]" % kind] = [
                ("(values,u,c)", Array(mk(), u, c)),
                ("(c,values,u)", Array(c, mk(), u)),
                ("(q,values)", Array(q, mk())),
                ("CreateWithQuantity", Array.CreateWithQuantity(q, mk())),
                ("kw", Array(values=mk(), unit=u, category=c)),
            ]
            out["FixedArray[%s]" % kind] = [
                ("(n,values,u,c)", FixedArray(3, mk(), u, c)),
                ("(n,c,values,u)", FixedArray(3, c, mk(), u)),
                ("(n,q,values)", FixedArray(3, q, mk())),
                ("CreateWithQuantity", FixedArray.CreateWithQuantity(q, mk())),
                ("CreateWithQuantity(dimension)", FixedArray.CreateWithQuantity(q, mk(), dimension=3)),
            ]
        if not explicit_only:
            out["Scalar"] += [("(v,u)", Scalar(x, u)), ("((v,u))", Scalar((x, u))), ("(q(u),v)", Scalar(ObtainQuantity(u), x))]
            out["FractionScalar"] += [("(v,u)", FractionScalar(fv(), u)), ("(q(u),v)", FractionScalar(ObtainQuantity(u), fv()))]
            for kind in gen.CONTAINER_KINDS:
                mk = lambda: gen.as_container(kind, [x, y, x])
                out["Array[%s]" % kind] += [("(values,u)", Array(mk(), u)), ("(q(u),values)", Array(ObtainQuantity(u), mk()))]
                out["FixedArray[%s]" % kind] += [("(n,values,u)", FixedArray(3, mk(), u)), ("(n,q(u),values)", FixedArray(3, ObtainQuantity(u), mk()))]
        return out

    def check_unit(self, qt, u, x, y):
        """all categories of the type with explicit forms first, then the no-category forms"""
        from barril.units import Scalar

        ctx, db = self.ctx, self.db
        info = db.unit_to_unit_info[u]
        c_table = info.default_category or info.quantity_type
        cats = self.cats.get(qt, [])
        if c_table not in db.categories_to_quantity_types:
            ctx.record("table_default_category_not_registered", {"u": u, "c": c_table, "x": x, "y": y, "qt": qt}, "unit %r names default category %r which is not registered" % (u, c_table))
            return
        for c in cats:
            case = {"qt": qt, "u": u, "c": c, "x": x, "y": y, "phase": "explicit"}
            try:
                forms = self.build(u, c, x, y, explicit_only=True)
            except Exception as e:
                if core.tree_frame(e) is None:
                    raise
                ctx.record("form_raises:%s" % type(e).__name__, case, "a construction form raised %s: %s for unit %r category %r" % (type(e).__name__, str(e)[:200], u, c))
                continue
            for cls, objs in forms.items():
                self.all_equal(objs, case, cls.split("[")[0], with_hash=cls == "Scalar")
            s = forms["Scalar"][0][1]
            ctx.ev()
            try:
                back = eval(repr(s), {"Scalar": Scalar, "inf": float("inf"), "nan": float("nan")})
                if not (back == s):
                    ctx.record("repr_does_not_evaluate_back", case, "eval(%r) gives %r" % (repr(s), back))
            except Exception as e:
                ctx.record("repr_does_not_evaluate:%s" % type(e).__name__, case, "eval(%r) raised %s: %s" % (repr(s), type(e).__name__, e))
            if c != c_table:
                ctx.nt_disjoint += 1
        # the forms that leave the category out, after every other category of the type has been used
        for phase in ("default", "default_again"):
            case = {"qt": qt, "u": u, "c": c_table, "x": x, "y": y, "phase": phase}
            ctx.ev()
            got = db.GetDefaultCategory(u)
            if got != c_table:
                ctx.record("default_category_differs_from_table", case, "GetDefaultCategory(%r) = %r, the unit table says %r" % (u, got, c_table))
            try:
                forms = self.build(u, c_table, x, y, explicit_only=False)
            except Exception as e:
                if core.tree_frame(e) is None:
                    raise
                ctx.record("form_raises:%s" % type(e).__name__, case, "a construction form raised %s: %s for unit %r (default category %r)" % (type(e).__name__, str(e)[:200], u, c_table))
                continue
            for cls, objs in forms.items():
                self.all_equal(objs, case, cls.split("[")[0], with_hash=cls == "Scalar")
        if info.default_category or c_table != qt:
            ctx.nt_disjoint += 1
            ctx.cls("units_with_row_default_category")
        if len(ctx.samples) < 4 and info.default_category:
            ctx.sample({"unit": u, "default_category": c_table, "quantity_type": qt, "categories_of_type": cats[:4], "x": x})
        ctx.cls("units_checked")
        ctx.cls("category_unit_pairs_checked", len(cats))

    def check_category(self, c):
        from barril.units import Array, FixedArray, FractionScalar, Scalar

        ctx, db = self.ctx, self.db
        info = db.GetCategoryInfo(c)
        du, dv = info.default_unit, info.default_value
        case = {"c": c, "u": du, "x": dv, "y": 0.0, "qt": info.quantity_type, "phase": "category_only"}
        try:
            pairs = [
                ("Scalar", Scalar(c), Scalar(dv, du, c)),
                ("FractionScalar", FractionScalar(c), FractionScalar(dv, du, c)),
                ("Array", Array(c), Array([], du, c)),
            ]
            fa = FixedArray(3, c)
        except Exception as e:
            if core.tree_frame(e) is None:
                raise
            ctx.record("category_only_form_raises:%s" % type(e).__name__, case, "building from category %r alone raised %s: %s" % (c, type(e).__name__, str(e)[:200]))
            return
        for cls, a, b in pairs:
            ctx.ev()
            if not (a == b):
                ctx.record("category_only_differs:%s" % cls, dict(case, cls=cls), "%s(%r) = %r, %s(default value, default unit, category) = %r" % (cls, c, a, cls, b))
        ctx.ev()
        if fa.GetUnit() != du or fa.GetCategory() != c or fa.dimension != 3:
            ctx.record("category_only_differs:FixedArray", case, "FixedArray(3, %r) = %r" % (c, fa))
        # the same with another unit of the type: value is the default value converted (C02 checks the number)
        ctx.cls("categories_checked")


def run_shard(spec, ctx):
    db = env.new_db("posc")
    with env.pushed(db):
        ch = Checker(ctx, db)
        items, weights = [], []
        for qt in sorted(db.quantity_types):
            if qt == "Unknown":
                continue
            k = len(ch.cats.get(qt, [])) + 2
            for info in db.quantity_types[qt]:
                items.append((qt, info.unit))
                weights.append(k)
        mine = partition(items, weights, spec["n"])[spec["i"]]
        ctx.exhaustive["units x construction forms (default category)"] = "all %d units" % len(items)
        ctx.exhaustive["(category, unit) pairs of one quantity type x explicit forms"] = "all"
        ctx.exhaustive["categories (category-only form)"] = "all"
        reg0 = snapshot.registry_light(db)

        def t():
            @given(gen.finite_values(1e12, 1e-12), gen.moderate_values(1e-3, 1e3))
            def test(x, y):
                for qt, u in mine:
                    if ctx.out_of_time():
                        return
                    ch.check_unit(qt, u, x, y)

            return test

        core.hunt(ctx, t, spec["seed"] * 1000 + spec["shard"], spec["draws"], shrink=False)
        cats = sorted(db.IterCategories())
        for c in cats[spec["i"] :: spec["n"]]:
            ch.check_category(c)
        if snapshot.registry_light(db) != reg0:
            ctx.record("registry_changed_by_construction", {"phase": "registry"}, "constructing objects changed the registry")


def replay(case, ctx):
    db = env.new_db("posc")
    with env.pushed(db):
        ch = Checker(ctx, db)
        if case.get("phase") == "category_only":
            ch.check_category(case["c"])
        elif "u" in case:
            ch.check_unit(case["qt"], case["u"], case["x"], case["y"])
    return ["%s: %s" % (k, v["msg"]) for k, v in ctx.violations.items()]
