"""C20 — derived unit, category and type strings render every factor unambiguously."""
from collections import OrderedDict

from hypothesis import given, strategies as st

from bv import core, dims, env, gen, grammar
from bv.model import UnitModel

PID = "C20"
RULE = (
    "Hypothesis generates derived quantities two ways: expression trees (* / **n) over leaf Scalars whose units are "
    "purely alphabetic table symbols (atomic basis) from every table type with >=2 such scale-only units, and direct "
    "CreateDerived maps with 1..4 numerator and 0..4 denominator factors, exponents -4..4, repeated quantity types "
    "under different categories. Oracle (parse-back): parsing GetUnit() with the table's own grammar ('.' between "
    "factors, one '/', exponent suffixes, '1/' for a pure reciprocal) recovers exactly the joined composing units and "
    "exponents; parsing the category, quantity-type and unit-name strings (' * ', one ' / ', '(x) ** n') recovers "
    "every factor with its exponent (numerator factors first); all 6322 simple (category, unit) pairs render exactly "
    "their registered category, type, unit and unit name; repr/str/GetFormatted of Scalar, Array, FixedArray and "
    "FractionScalar show GetUnit(). A plain number divided by a derived amount has the same factors with negated exponents; products and quotients of units of different quantity types whose names coincide up to case still list two factors. Arrays without values (list, tuple, ndarray) and over an ndarray show the unit as well. Quantities created through the list form ([(unit, exponent)] with a parallel tuple of categories, zero exponents included) hold the factors they were given. Non-trivial = >= 2 denominator factors or a repeated quantity type; distinct key "
    "= the composing map."
)
ASSUMPTIONS = ["composing units that are themselves compound symbols are excluded by the statement", "no registered category or unit name contains ' * ', ' / ' or ' ** ' (asserted at start)"]
BUDGET_S = {"quick": 90, "thorough": 900}
N = {"quick": 600, "thorough": 20000}
SHARDS = {"quick": 6, "thorough": 16}


def plan(tier, seed):
    return [{"tier": tier, "seed": seed, "n": N[tier]} for _ in range(SHARDS[tier])]


def _pos_then_neg(pairs):
    pairs = [(k, v) for k, v in pairs if v != 0]
    return [(k, v) for k, v in pairs if v > 0] + [(k, v) for k, v in pairs if v < 0]


_RENAMED = None


class Checker:
    def __init__(self, ctx, db):
        self.ctx = ctx
        self.db = db
        self.um = UnitModel(db)
        self.pool = dims.DimPool(db, self.um, only_alpha=True)

    def check_quantity(self, case, q):
        ctx, db = self.ctx, self.db
        cmap = q.GetCategoryToUnitAndExps()
        joined = {u: e for u, e in q.GetComposingUnitsJoiningExponents() if e != 0}
        unit = q.GetUnit()
        ctx.ev()
        n_den = sum(1 for e in joined.values() if e < 0)
        qts = OrderedDict()
        for c, (u, e) in cmap.items():
            qt = db.GetCategoryQuantityType(c)
            qts[qt] = qts.get(qt, 0) + e
        repeated = len(qts) < len(cmap)
        ctx.cls("denominator_factors_%d" % min(n_den, 3))
        if repeated:
            ctx.cls("repeated_quantity_type")
        if n_den >= 2 or repeated:
            ctx.nontrivial(tuple((c, tuple(ue)) for c, ue in cmap.items()), {"map": {c: list(ue) for c, ue in cmap.items()}, "unit": unit, "category": q.GetCategory(), "quantity_type": q.GetQuantityType()})
        # unit string
        try:
            parsed = grammar.parse_unit_string(unit)
        except grammar.ParseError as e:
            ctx.fail("unit_string_not_in_grammar", case, "GetUnit() = %r for composing units %r: %s" % (unit, joined, e))
            parsed = None
        if parsed is not None and parsed != joined:
            ctx.fail("unit_string_parses_to_other_factors", case, "GetUnit() = %r parses to %r, composing units are %r" % (unit, parsed, joined))
        # category / quantity type / unit name strings
        # (exponents are joined per unit *symbol*; two different units that happen to carry the same name stay two factors)
        by_symbol = OrderedDict()
        for c, (u, e) in cmap.items():
            by_symbol[u] = by_symbol.get(u, 0) + e
        names = [(db.GetUnitName(db.unit_to_unit_info[u].quantity_type, u), e) for u, e in by_symbol.items()]
        # the strings are the quantity's own: asked while a project database (other unit names, fewer categories) is the
        # current one they read the same
        global _RENAMED
        if _RENAMED is None:
            _RENAMED = env.renamed_db()
        own = (q.GetUnit(), q.GetCategory(), q.GetQuantityType(), q.GetUnitName())
        with env.pushed(_RENAMED):
            there = (q.GetUnit(), q.GetCategory(), q.GetQuantityType(), q.GetUnitName())
        ctx.ev()
        if there != own:
            ctx.fail("strings_depend_on_the_current_database", case, "(unit, category, quantity type, unit name) = %r while its own database is current, %r while a project database is" % (own, there))
        for what, text, want in (
            ("category", q.GetCategory(), _pos_then_neg([(c, ue[1]) for c, ue in cmap.items()])),
            ("quantity_type", q.GetQuantityType(), _pos_then_neg(list(qts.items()))),
            ("unit_name", q.GetUnitName(), _pos_then_neg(names)),
        ):
            ctx.ev()
            try:
                got = grammar.parse_name_string(text)
            except grammar.ParseError as e:
                ctx.fail("%s_string_not_in_grammar" % what, case, "%s string %r: %s" % (what, text, e))
                continue
            if got != want:
                ctx.fail("%s_string_loses_or_merges_factors" % what, case, "%s string %r lists %r, the quantity has %r" % (what, text, got, want))

    def check_wrappers(self, case, q, fail=None):
        from barril.basic.fraction import FractionValue
        from barril.units import Array, FixedArray, FractionScalar, Scalar

        ctx = self.ctx
        fail = fail or ctx.fail
        unit = q.GetUnit()
        try:
            self._check_wrappers(case, q, fail)
        except core.Viol:
            raise
        except Exception as e:
            if core.tree_frame(e) is None and not isinstance(e, (TypeError, ValueError)):
                raise
            fail("value_object_rendering_raises:%s" % type(e).__name__, case, "rendering a value object with unit %r raised %s: %s" % (unit, type(e).__name__, str(e)[:120]))

    def _check_wrappers(self, case, q, fail):
        import numpy

        from barril.basic.fraction import FractionValue
        from barril.units import Array, FixedArray, FractionScalar, Scalar

        ctx = self.ctx
        unit = q.GetUnit()
        s = Scalar.CreateWithQuantity(q, 1.5)
        s_inf = Scalar.CreateWithQuantity(q, float("inf"))
        a = Array.CreateWithQuantity(q, [1.0, 2.0])
        fa = FixedArray.CreateWithQuantity(q, [1.0, 2.0], dimension=2)
        fs = FractionScalar.CreateWithQuantity(q, FractionValue(1, (1, 2)))
        suffix = " [%s]" % unit
        checks = [
            ("Scalar.repr", repr(s), "'%s'" % unit),
            ("Scalar.str", str(s), suffix),
            ("Scalar.GetFormatted", s.GetFormatted(), suffix),
            ("Scalar.str(inf)", str(s_inf), suffix),
            ("Scalar.GetFormatted(value_format)", s.GetFormatted(value_format="%.3f"), suffix),
            ("Array.repr", repr(a), unit),
            ("Array.str", str(a), suffix),
            # (an Array without values, and one over an ndarray, show the unit as well)
            ("Array.str(empty list)", str(Array.CreateWithQuantity(q, [])), suffix),
            ("Array.str(empty tuple)", str(Array.CreateWithQuantity(q, ())), suffix),
            ("Array.repr(empty list)", repr(Array.CreateWithQuantity(q, [])), unit),
            ("Array.str(ndarray)", str(Array.CreateWithQuantity(q, numpy.array([1.0, 2.0]))), suffix),
            ("Array.str(empty ndarray)", str(Array.CreateWithQuantity(q, numpy.array([]))), suffix),
            ("FixedArray.repr", repr(fa), unit),
            ("FixedArray.str", str(fa), suffix),
            ("FractionScalar.repr", repr(fs), "unit='%s'" % unit),
            ("FractionScalar.str", str(fs), suffix),
        ]
        if case.get("kind") == "simple":
            # the same object formatted in another unit of its type, then in its own unit, then in the other one again
            qt = q.GetQuantityType()
            others = [i.unit for i in self.db.quantity_types.get(qt, []) if i.unit != unit]
            if others:
                w = others[len(unit) % len(others)]
                t1 = s.GetFormatted(w)
                t2 = str(s)
                t3 = s.GetFormatted(w, "%.2f")
                t4 = s.GetFormatted()
                checks += [
                    ("Scalar.GetFormatted(other unit)", t1, " [%s]" % w),
                    ("Scalar.str after GetFormatted(other unit)", t2, suffix),
                    ("Scalar.GetFormatted(other unit, format) after str", t3, " [%s]" % w),
                    ("Scalar.GetFormatted() after GetFormatted(other unit)", t4, suffix),
                ]
                ctx.ev()
                if t2 != str(Scalar.CreateWithQuantity(q, 1.5)):
                    fail("value_object_text_depends_on_earlier_calls", case, "str() of %r after GetFormatted(%r) is %r, a fresh equal object prints %r" % (s, w, t2, str(Scalar.CreateWithQuantity(q, 1.5))))
        for name, text, want in checks:
            ctx.ev()
            if want not in text:
                fail("value_object_does_not_show_unit:%s" % name, case, "%s = %r does not show %r" % (name, text, want))
        for name, obj in (("Scalar", s), ("Array", a), ("FixedArray", fa), ("FractionScalar", fs)):
            ctx.ev()
            if obj.GetUnit() != unit or obj.GetCategory() != q.GetCategory() or obj.GetQuantityType() != q.GetQuantityType():
                fail("value_object_strings_differ_from_quantity:%s" % name, case, "%s reports (%r,%r,%r), its quantity (%r,%r,%r)" % (name, obj.GetUnit(), obj.GetCategory(), obj.GetQuantityType(), unit, q.GetCategory(), q.GetQuantityType()))

    # -- cases -------------------------------------------------------------------------------
    def ev_tree(self, t):
        from barril.units import Scalar

        if t[0] == "leaf":
            return Scalar(1.0, t[2], t[3])
        if t[0] == "**":
            return self.ev_tree(t[1]) ** t[2]
        a, b = self.ev_tree(t[1]), self.ev_tree(t[2])
        return a * b if t[0] == "*" else a / b

    def check_case(self, case):
        from barril.units import Quantity

        if case["kind"] == "tree":
            if dims.tree_size_exp(case["tree"]) > 9:
                self.ctx.cls("skipped_exponent_bound")
                return
            obj = self.ev_tree(case["tree"])
            q = obj.GetQuantity()
            if case.get("recip") and q.IsDerived():
                # a plain number divided by the amount: the same factors, every exponent negated
                r = (2.0 / obj) if case["recip"] == 1 else (2.0 // obj)
                want_map = [(c, u, -e) for c, (u, e) in q.GetCategoryToUnitAndExps().items()]
                got_map = [(c, u, e) for c, (u, e) in r.GetQuantity().GetCategoryToUnitAndExps().items()]
                self.ctx.ev()
                if got_map != want_map:
                    self.ctx.fail("reciprocal_quantity_factors_wrong", case, "2 / %r has factors %r, expected %r" % (obj, got_map, want_map))
                q = r.GetQuantity()
                self.ctx.cls("number_divided_by_amount")
        else:
            if case["kind"] == "list":
                # the list form: units as [(unit, exponent), ...] with a parallel tuple of categories; factors with
                # exponent 0 may be written anywhere in it
                from barril.units import ObtainQuantity

                q = ObtainQuantity([(ue[0], ue[1]) for _c, ue in case["map"]], tuple(c for c, _ue in case["map"]))
            else:
                q = Quantity.CreateDerived(OrderedDict((c, list(ue)) for c, ue in case["map"]))
            # the quantity holds the factors it was given: same categories, same units, same exponents, same order
            # (a single factor with exponent 1 is the simple quantity)
            given = [(c, ue[0], ue[1]) for c, ue in case["map"]]
            nonzero = [g for g in given if g[2] != 0]
            held = [(c, u, e) for c, (u, e) in q.GetCategoryToUnitAndExps().items()]
            self.ctx.ev()
            if held != given and [h for h in held if h[2] != 0] != nonzero:
                self.ctx.fail("quantity_holds_other_factors_than_given:%s" % case["kind"], case, "asked for the factors %r, the quantity holds %r (category %r, unit %r)" % (given, held, q.GetCategory(), q.GetUnit()))
            if any(g[2] == 0 for g in given):
                self.ctx.cls("factor_with_exponent_zero_given")
        self.ctx.cls("kind_" + case["kind"])
        if not q.IsDerived():
            self.ctx.cls("collapsed_to_simple")
        self.check_quantity(case, q)
        self.check_wrappers(case, q)

    def check_simple(self, cat, unit):
        from barril.units import ObtainQuantity

        ctx, db = self.ctx, self.db
        q = ObtainQuantity(unit, cat)
        qt = db.GetCategoryQuantityType(cat)
        ctx.ev()
        got = (q.GetCategory(), q.GetQuantityType(), q.GetUnit(), q.GetUnitName())
        want = (cat, qt, unit, db.GetUnitName(qt, unit))
        if got != want:
            ctx.record("simple_quantity_strings", {"kind": "simple", "cat": cat, "unit": unit}, "simple quantity (%r,%r) renders %r, registered %r" % (cat, unit, got, want))
        # value objects on every simple quantity show the unit too (symbols such as '%' or 'in/10' included)
        self.check_wrappers({"kind": "simple", "cat": cat, "unit": unit}, q, fail=ctx.record)


def _fix_tree(t):
    if isinstance(t, (list, tuple)):
        if t and t[0] == "leaf":
            return ("leaf", t[1], t[2], t[3])
        if t and t[0] == "**":
            return ("**", _fix_tree(t[1]), t[2])
        return (t[0], _fix_tree(t[1]), _fix_tree(t[2]))
    return t


def _strategies(ch):
    pool = ch.pool
    tree = dims.tree_strategy(pool, max_depth=4, values=st.just(1.0), ops=("*", "/", "**"), max_pow=3)

    @st.composite
    def direct(draw):
        n_num = draw(st.integers(0, 4))
        n_den = draw(st.integers(0 if n_num else 1, 4))
        units = {}
        out = []
        used = set()
        for i in range(n_num + n_den):
            qt = draw(pool.qt_strategy())
            if qt not in units:
                units[qt] = draw(st.sampled_from(pool.units[qt]))
            free = [c for c in pool.cats[qt] if c not in used]
            if not free:
                continue
            c = draw(st.sampled_from(free))
            used.add(c)
            e = draw(st.integers(1, 4))
            out.append((c, [units[qt], e if i < n_num else -e]))
        # a unit whose exponents cancel to zero is not a factor of the quantity: drop those maps
        tot = {}
        for c, (u, e) in out:
            tot[u] = tot.get(u, 0) + e
        out = [(c, ue) for c, ue in out if tot[ue[0]] != 0]
        if not out:
            qt = draw(pool.qt_strategy())
            out = [(pool.cats[qt][0], [pool.units[qt][0], -2])]
        order = draw(st.permutations(list(range(len(out)))))
        m = [out[i] for i in order]
        if draw(st.integers(0, 2)) == 0:
            return {"kind": "direct", "map": m}
        # the list form; in half of the cases with a factor of exponent 0 somewhere in it
        if draw(st.booleans()):
            spare = [(qt, c) for qt in pool.qts for c in pool.cats[qt] if c not in used]
            if spare:
                qt, c = draw(st.sampled_from(spare[:40]))
                m.insert(draw(st.integers(0, len(m))), (c, [units.get(qt) or pool.units[qt][0], 0]))
        return {"kind": "list", "map": m}

    return st.one_of(tree.map(lambda t: {"kind": "tree", "tree": t}), st.tuples(tree, st.sampled_from([1, 1, 2])).map(lambda tr: {"kind": "tree", "tree": tr[0], "recip": tr[1]}), direct())


def run_shard(spec, ctx):
    db = env.new_db("posc")
    with env.pushed(db):
        for c in db.IterCategories():
            if any(sep in c for sep in (" * ", " / ", " ** ")):
                raise core.HarnessError("category %r contains a separator" % c)
        ch = Checker(ctx, db)
        strat = _strategies(ch)

        def mk():
            @given(strat)
            def test(case):
                core.guarded(ctx, ch.check_case, case)

            return test

        core.hunt(ctx, mk, spec["seed"] * 1000 + spec["shard"], spec["n"])
        if spec["shard"] % SHARDS[spec["tier"]] == 0:
            # units of different quantity types whose *names* coincide (up to case): their product and quotient still
            # list two factors in every string (Byte of 'computer binary memory' against byte of 'digital storage')
            from barril.units import Scalar

            groups = {}
            for qt, infos in db.quantity_types.items():
                for i in infos:
                    groups.setdefault(i.name.lower(), []).append((qt, i.unit))
            n_pairs = 0
            for name, members in sorted(groups.items()):
                for (qa, ua) in members:
                    for (qb, ub) in members:
                        if qa == qb or (ua, ub) >= (ub, ua) and False:
                            continue
                        for sym, fn in (("*", lambda: Scalar(1.0, ua) * Scalar(1.0, ub)), ("/", lambda: Scalar(1.0, ua) / Scalar(1.0, ub)), ("./s", lambda: Scalar(1.0, ua) * Scalar(1.0, ub) / Scalar(1.0, "s"))):
                            case = {"kind": "same_named_units", "ua": ua, "ub": ub, "op": sym}
                            try:
                                ch.check_quantity(case, fn().GetQuantity())
                            except core.Viol as v:
                                ctx.record(v.key + ":same_named_units", case, v.msg)
                            n_pairs += 1
            ctx.cls("same_named_unit_pairs", n_pairs)
            ctx.exhaustive["units of different quantity types with the same name (up to case)"] = "all %d products / quotients" % n_pairs
        # all simple (category, unit) pairs, split over the shards
        cats = sorted(db.IterCategories())
        nsh = SHARDS[spec["tier"]]
        for i, cat in enumerate(cats):
            if i % nsh != spec["shard"] % nsh:
                continue
            qt = db.GetCategoryQuantityType(cat)
            for info in db.quantity_types[qt]:
                ch.check_simple(cat, info.unit)
                ctx.cls("simple_pairs")
        ctx.exhaustive["simple (category, unit) pairs"] = "all"


def replay(case, ctx):
    db = env.new_db("posc")
    with env.pushed(db):
        ch = Checker(ctx, db)
        if case["kind"] == "simple":
            ch.check_simple(case["cat"], case["unit"])
            return ["%s: %s" % (k, v["msg"]) for k, v in ctx.violations.items()]
        if case["kind"] == "same_named_units":
            from barril.units import Scalar

            a, b = Scalar(1.0, case["ua"]), Scalar(1.0, case["ub"])
            q = (a * b if case["op"] == "*" else (a / b if case["op"] == "/" else a * b / Scalar(1.0, "s"))).GetQuantity()
            return core.replay_guarded(ctx, lambda c: ch.check_quantity(c, q), case)
        if case["kind"] == "tree":
            case = {"kind": "tree", "tree": _fix_tree(case["tree"]), "recip": case.get("recip")}
        else:
            case = {"kind": "direct", "map": [(c, list(ue)) for c, ue in case["map"]]}
        return core.replay_guarded(ctx, ch.check_case, case)
