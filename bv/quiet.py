"""Run every registered check on the unchanged tree at several seeds (fresh processes) and report
any run that is not quiet:  python -m bv.quiet [--tier quick] [--seeds 1-10] [PID ...]"""
import json
import os
import subprocess
import sys
import time

HERE = os.path.dirname(os.path.abspath(__file__))
VERIF = os.path.dirname(HERE)


def main(argv):
    tier = "quick"
    seeds = list(range(1, 9))
    pids = []
    it = iter(argv)
    for a in it:
        if a == "--tier":
            tier = next(it)
        elif a == "--seeds":
            lo, hi = next(it).split("-")
            seeds = list(range(int(lo), int(hi) + 1))
        else:
            pids.append(a.upper())
    if not pids:
        man = json.load(open(os.path.join(VERIF, "MANIFEST.json")))
        pids = [c["property_id"] for c in man["checks"]]
    bad = 0
    for pid in pids:
        for s in seeds:
            t0 = time.time()
            r = subprocess.run([sys.executable, "-m", "bv.run", pid, "--tier", tier, "--no-evidence"], cwd=VERIF, capture_output=True, text=True, env=dict(os.environ, VERIF_SEED=str(s)))
            lines = [l for l in r.stdout.splitlines() if l.startswith(("VIOLATION", "HARNESS", "  ["))]
            status = "quiet" if r.returncode == 0 else "NOT-QUIET rc=%d" % r.returncode
            print("%s seed=%d %s %.0fs %s" % (pid, s, status, time.time() - t0, " | ".join(l[:200] for l in lines[:2])))
            sys.stdout.flush()
            if r.returncode != 0:
                bad += 1
    print("not quiet: %d" % bad)
    sys.exit(1 if bad else 0)


if __name__ == "__main__":
    main(sys.argv[1:])
