"""CLI:  python -m bv.run <ID> [--tier quick|thorough] [--replay FILE] [--jobs N]

exit 0  property held on everything explored (KNOWN-FINDING lines possible)
exit 1  one `VIOLATION property=<id> replay=<path>` line per distinct root cause (max 10)
exit 2  harness error (never disguised as a violation)
"""
import argparse
import importlib
import json
import multiprocessing
import os
import re
import shutil
import sys
import tempfile
import time
import traceback

HERE = os.path.dirname(os.path.abspath(__file__))
VERIF = os.path.dirname(HERE)


def _pin_environment():
    """Re-exec once with everything that could make a run non-reproducible pinned."""
    if os.environ.get("BV_PINNED") == "1":
        return
    repo = os.path.abspath(os.environ.get("VERIF_REPO", "/repo"))
    envv = dict(os.environ)
    envv["BV_PINNED"] = "1"
    envv["VERIF_REPO"] = repo
    envv["PYTHONHASHSEED"] = "0"
    envv["PYTHONDONTWRITEBYTECODE"] = "1"
    cache = tempfile.mkdtemp(prefix="bv-pyc-")
    envv["PYTHONPYCACHEPREFIX"] = cache
    envv["BV_PYC_DIR"] = cache
    envv["LC_ALL"] = "C"
    envv["LANG"] = "C"
    envv["TZ"] = "UTC"
    envv["OMP_NUM_THREADS"] = "1"
    envv["OPENBLAS_NUM_THREADS"] = "1"
    envv["BARRIL_VERIF"] = "1"
    pp = [os.path.join(repo, "src"), VERIF]
    envv["PYTHONPATH"] = os.pathsep.join(pp)
    envv.pop("COVERAGE_PROCESS_START", None)
    import subprocess

    try:
        rc = subprocess.call([sys.executable, "-m", "bv.run"] + sys.argv[1:], env=envv, cwd=VERIF)
    finally:
        shutil.rmtree(cache, ignore_errors=True)
    sys.exit(rc)


def _run_shard(args):
    pid, tier, seed, spec, known, budget_s = args
    import warnings

    import numpy

    from bv import core

    warnings.filterwarnings("ignore")
    numpy.seterr(all="ignore")
    mod = importlib.import_module("bv.props.%s" % pid.lower())
    ctx = core.Ctx(pid, tier, seed, shard=spec.get("shard", 0), known=known, budget_s=budget_s)
    cov = None
    if os.environ.get("BV_COVERAGE"):
        # optional line coverage of the tree under test (python -m bv.cover): which anchored lines the generated
        # cases reach; never part of a verdict
        import coverage

        from bv import env as _env

        cov = coverage.Coverage(data_file=os.path.join(os.environ["BV_COVERAGE"], "cov.%s.%s.%d" % (pid, spec.get("shard", 0), os.getpid())), include=[os.path.join(_env.SRC, "*")], omit=["*/_tests/*"])
        cov.start()
    try:
        if "__seeds__" in spec:
            # committed regression cases (one per defect found earlier): plain checks, no Hypothesis
            for path in spec["__seeds__"]:
                doc = json.load(open(path))
                sub = core.Ctx(pid, tier, seed, known=known)
                msgs = mod.replay(core.unjson(doc["case"]), sub)
                ctx.ev()
                ctx.cls("regression_seeds_replayed")
                for k, v in sub.known_hits.items():
                    ctx.known_hits[k] += v
                if msgs:
                    ctx.violations["seed:" + os.path.basename(path)] = {"case": doc["case"], "msg": "; ".join(msgs)[:1500]}
        else:
            mod.run_shard(spec, ctx)
        res = ctx.result()
        res["error"] = None
    except BaseException as e:
        res = ctx.result()
        where = core.tree_frame(e) if isinstance(e, Exception) and not isinstance(e, core.HarnessError) else None
        if where is not None:
            # an exception raised inside the tree under test that no oracle expected: the library failed on an input the
            # check holds to be valid.  Reported as a violation of its own (the traceback is the replay document); the
            # shard stops here, so the run is also inconclusive beyond this point.
            key = "escaped_exception:%s@%s" % (type(e).__name__, where)
            if key not in known:
                res["violations"].setdefault(key, {"case": {"escaped_exception": True, "shard": spec.get("shard", 0), "traceback": traceback.format_exc()[-3000:]}, "msg": "the library raised %s: %s (not expected by any oracle; shard %s stopped there)" % (type(e).__name__, str(e)[:300], spec.get("shard", 0))})
            res["budget_exhausted"] = True
            res["error"] = None
        else:
            res["error"] = traceback.format_exc()
    finally:
        if cov is not None:
            cov.stop()
            cov.save()
    return res


def _shard_child(w, conn):
    try:
        conn.send(_run_shard(w))
    finally:
        conn.close()


def _lost_shard(w, why, inconclusive):
    from bv import core

    pid, tier, seed, spec, known, budget_s = w
    ctx = core.Ctx(pid, tier, seed, shard=spec.get("shard", 0), known=known, budget_s=budget_s)
    res = ctx.result()
    res["error"] = None if inconclusive else why
    if inconclusive:
        res["budget_exhausted"] = True
        res["notes"] = list(res["notes"]) + [why]
    return res


def _run_supervised(work, jobs, hard_limit_s):
    """One forked process per shard, at most `jobs` at a time.  Unlike multiprocessing.Pool.map this cannot hang: a
    shard whose process dies without a result (killed by the system under memory pressure, say) is started once more
    and is a harness error if it dies again; a shard that runs past the hard wall limit (three times the tier's
    budget plus ten minutes - the checks stop themselves at the budget) is killed and counted as inconclusive,
    never as a violation."""
    from multiprocessing.connection import wait

    mp = multiprocessing.get_context("fork")
    results = [None] * len(work)
    attempts = [0] * len(work)
    pending = list(range(len(work)))
    running = {}
    while pending or running:
        while pending and len(running) < jobs:
            i = pending.pop(0)
            r, w = mp.Pipe(duplex=False)
            p = mp.Process(target=_shard_child, args=(work[i], w))
            p.start()
            w.close()
            attempts[i] += 1
            running[i] = (p, r, time.time())
        ready = wait([r for (_p, r, _t) in running.values()], timeout=1.0)
        for i, (p, r, t_start) in list(running.items()):
            if r in ready:
                try:
                    results[i] = r.recv()
                except (EOFError, OSError):
                    results[i] = None
                p.join()
                r.close()
                del running[i]
                if results[i] is None:
                    if attempts[i] < 2:
                        pending.append(i)
                    else:
                        results[i] = _lost_shard(work[i], "shard %d: its process ended twice without a result (exit code %r)" % (i, p.exitcode), False)
            elif time.time() - t_start > hard_limit_s:
                p.kill()
                p.join()
                r.close()
                del running[i]
                results[i] = _lost_shard(work[i], "shard %d stopped at the hard wall limit of %d s: inconclusive" % (i, hard_limit_s), True)
    return results


def _safe_name(key):
    return re.sub(r"[^A-Za-z0-9_.=+-]+", "_", key)[:120].strip("_") or "case"


def main():
    _pin_environment()
    ap = argparse.ArgumentParser()
    ap.add_argument("pid")
    ap.add_argument("--tier", default=os.environ.get("VERIF_TIER", "quick"), choices=["quick", "thorough"])
    ap.add_argument("--replay", default=None)
    ap.add_argument("--jobs", type=int, default=int(os.environ.get("BV_JOBS", "0")))
    ap.add_argument("--no-evidence", action="store_true")
    a = ap.parse_args()
    pid = a.pid.upper()
    try:
        seed = int(os.environ.get("VERIF_SEED", "1"))
    except ValueError:
        seed = 1

    try:
        from bv import core, env

        env.assert_tree()
        mod = importlib.import_module("bv.props.%s" % pid.lower())
    except BaseException:
        traceback.print_exc()
        print("HARNESS-ERROR property=%s (import)" % pid)
        sys.exit(2)

    # ------------------------------------------------------------------ replay
    if a.replay:
        try:
            doc = json.load(open(a.replay))
            case = core.unjson(doc["case"])
            ctx = core.Ctx(pid, "quick", seed)
            if isinstance(case, dict) and case.get("escaped_exception"):
                # the document of an exception that escaped a sweep is its traceback: run the quick tier again
                print(case.get("traceback", ""))
                print("this replay file records an exception that escaped a sweep; re-run the check itself to reproduce it")
                sys.exit(1)
            msgs = mod.replay(case, ctx)
        except BaseException as e:
            where = core.tree_frame(e) if isinstance(e, Exception) and not isinstance(e, core.HarnessError) else None
            if where is None:
                traceback.print_exc()
                print("HARNESS-ERROR property=%s (replay)" % pid)
                sys.exit(2)
            # the library itself raised on the recorded case and no oracle expected it
            msgs = ["escaped_exception:%s@%s: the library raised %s: %s" % (type(e).__name__, where, type(e).__name__, str(e)[:300])]
        if msgs:
            for m in msgs[:5]:
                print("replay fails: %s" % m)
            print("VIOLATION property=%s replay=%s" % (pid, a.replay))
            sys.exit(1)
        print("replay passes: %s" % a.replay)
        sys.exit(0)

    # ------------------------------------------------------------------ run
    t0 = time.time()
    known = core.KnownFindings(pid)
    try:
        specs = mod.plan(a.tier, seed)
    except BaseException:
        traceback.print_exc()
        print("HARNESS-ERROR property=%s (plan)" % pid)
        sys.exit(2)
    seed_dir = os.path.join(VERIF, "replays", "seeds", pid)
    if os.path.isdir(seed_dir):
        seeds = sorted(os.path.join(seed_dir, f) for f in os.listdir(seed_dir) if f.endswith(".json"))
        if seeds:
            specs.append({"__seeds__": seeds})
    for i, s in enumerate(specs):
        s.setdefault("shard", i)
    budget = getattr(mod, "BUDGET_S", {"quick": 120, "thorough": 1500})[a.tier]
    jobs = a.jobs or min(16, os.cpu_count() or 4, max(1, len(specs)))
    work = [(pid, a.tier, seed, s, dict(known.open), budget) for s in specs]
    if jobs == 1 or len(specs) == 1:
        results = [_run_shard(w) for w in work]
    else:
        results = _run_supervised(work, jobs, hard_limit_s=3 * budget + 600)

    errors = [r["error"] for r in results if r["error"]]
    # merge
    evaluations = sum(r["evaluations"] for r in results)
    nt = set()
    for r in results:
        nt |= r["nt"]
    distinct = len(nt) + sum(r["nt_disjoint"] for r in results)
    classes = {}
    for r in results:
        for k, v in r["classes"].items():
            classes[k] = classes.get(k, 0) + v
    samples = []
    for r in results:
        for s in r["samples"]:
            if len(samples) < core.MAX_SAMPLES and s not in samples:
                samples.append(s)
    # round-robin would be nicer; keep it simple but make sure several shards are represented
    if len(results) > 1:
        samples = []
        i = 0
        while len(samples) < core.MAX_SAMPLES and any(i < len(r["samples"]) for r in results):
            for r in results:
                if i < len(r["samples"]) and len(samples) < core.MAX_SAMPLES and r["samples"][i] not in samples:
                    samples.append(r["samples"][i])
            i += 1
    violations = {}
    for r in results:
        for k, v in r["violations"].items():
            violations.setdefault(k, v)
    known_hits = {}
    for r in results:
        for k, v in r["known_hits"].items():
            known_hits[k] = known_hits.get(k, 0) + v
    exhaustive = {}
    for r in results:
        exhaustive.update(r["exhaustive"])
    notes = []
    for r in results:
        for n in r["notes"]:
            if n not in notes:
                notes.append(n)
    extra = {}
    for r in results:
        for k, v in r["extra"].items():
            if isinstance(v, (int, float)) and isinstance(extra.get(k, 0), (int, float)):
                extra[k] = extra.get(k, 0) + v
            else:
                extra.setdefault(k, v)
    budget_exhausted = any(r["budget_exhausted"] for r in results)

    # a known finding that no longer reproduces is reported (informational, never an alarm)
    stale = [k for k in known.open if k not in known_hits]

    # replay files
    replay_paths = {}
    if violations:
        d = os.path.join(VERIF, "replays", pid)
        os.makedirs(d, exist_ok=True)
        for k, v in violations.items():
            p = os.path.join(d, _safe_name(k) + ".json")
            with open(p, "w") as f:
                json.dump({"property": pid, "key": k, "message": v["msg"], "case": v["case"], "seed": seed, "tier": a.tier}, f, indent=1, sort_keys=True)
            replay_paths[k] = p

    wall = time.time() - t0
    all_exhaustive = bool(getattr(mod, "EXHAUSTIVE", False)) and not budget_exhausted
    evidence = {
        "property_id": pid,
        "tier": a.tier,
        "seed": seed,
        "level": "exploration",
        "coverage": {
            "evaluations": int(evaluations),
            "distinct_nontrivial": int(distinct),
            "rule": mod.RULE,
            "samples": samples,
            "exhaustive": all_exhaustive,
            "exhaustive_subspaces": exhaustive,
            "classes": dict(sorted(classes.items())),
            "shards": len(specs),
            "known_findings_hit": known_hits,
            "excluded_by_known_finding": int(sum(known_hits.values())),
            "known_findings_not_reproduced": stale,
            "budget_exhausted": budget_exhausted,
            "notes": notes,
            "extra": extra,
            "tree": env.REPO,
        },
        "assumptions": list(getattr(mod, "ASSUMPTIONS", [])),
        "wall_s": round(wall, 3),
        "violations": len(violations),
    }
    if not a.no_evidence and not errors:
        os.makedirs(os.path.join(VERIF, "evidence"), exist_ok=True)
        with open(os.path.join(VERIF, "evidence", "%s.json" % pid), "w") as f:
            json.dump(evidence, f, indent=1, sort_keys=True)
            f.write("\n")

    print(
        "%s tier=%s seed=%d shards=%d evaluations=%d distinct_nontrivial=%d wall=%.1fs%s"
        % (pid, a.tier, seed, len(specs), evaluations, distinct, wall, " (budget exhausted: inconclusive beyond what was explored)" if budget_exhausted else "")
    )
    top = sorted(classes.items(), key=lambda kv: -kv[1])[:14]
    print("  classes: " + ", ".join("%s=%d" % kv for kv in top))
    for k in sorted(known_hits):
        print("KNOWN-FINDING: property=%s %s :: %s (hit %d times)" % (pid, k, known.open.get(k, ""), known_hits[k]))
    for k in stale:
        print("note: listed known finding did not reproduce in this run: %s" % k)
    if errors:
        for e in errors[:3]:
            print(e)
        print("HARNESS-ERROR property=%s (%d shard(s) failed)" % (pid, len(errors)))
        sys.exit(2)
    if violations:
        for i, (k, v) in enumerate(sorted(violations.items())):
            if i >= core.MAX_VIOLATIONS_REPORTED:
                print("... %d more root causes not listed" % (len(violations) - i))
                break
            print("  [%s] %s" % (k, v["msg"][:400]))
            print("VIOLATION property=%s replay=%s" % (pid, replay_paths[k]))
        sys.exit(1)
    sys.exit(0)


if __name__ == "__main__":
    main()
