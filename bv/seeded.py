"""Seeded breaking changes written by independent sub-agents (DESIGN §11).

  python -m bv.seeded add <ID> <PID> <dir with patch.diff demo.py README.md>   copy into /verif/seeded/<ID>/
  python -m bv.seeded verify [ID ...] [--all-checks] [--tier quick|thorough]   confirm + run the checks, write meta.json

verify, per seeded change, in a scratch worktree of /repo's HEAD (outside /repo and /verif, removed afterwards):
  1. demo.py on the unchanged tree            -> must exit 0
  2. apply patch.diff, run the repo's tests    -> must pass
  3. demo.py with the patch                    -> must exit non-zero
  4. the property's quick check (VERIF_REPO=<tree>) -> exit 1 expected (caught) ; otherwise thorough is tried
"""
import json
import os
import shutil
import subprocess
import sys
import time

from bv import mutants

VERIF = mutants.VERIF
SEEDED = os.path.join(VERIF, "seeded")
PY = mutants.PY


def add(sid, pid, src):
    d = os.path.join(SEEDED, sid)
    os.makedirs(d, exist_ok=True)
    for f in ("patch.diff", "demo.py", "README.md"):
        shutil.copy(os.path.join(src, f), os.path.join(d, f))
    meta = {"id": sid, "property": pid, "source": "independent sub-agent given only the property text and a scratch worktree", "needs": "", "verified": None}
    mp = os.path.join(d, "meta.json")
    if not os.path.exists(mp):
        json.dump(meta, open(mp, "w"), indent=1)
    print("added", d)


def _env(tree):
    return dict(os.environ, PYTHONPATH=tree + "/src", PYTHONDONTWRITEBYTECODE="1", PYTHONHASHSEED="0")


def _demo(tree, d):
    r = subprocess.run([PY, os.path.join(d, "demo.py")], cwd=tree, env=_env(tree), capture_output=True, text=True, timeout=600)
    return r.returncode, (r.stdout + r.stderr)[-400:]


def _check(pid, tree, tier):
    t0 = time.time()
    c = subprocess.run([PY, "-m", "bv.run", pid, "--tier", tier, "--no-evidence"], cwd=VERIF, capture_output=True, text=True, env=dict(os.environ, VERIF_REPO=tree))
    lines = [l for l in c.stdout.splitlines() if l.startswith(("VIOLATION", "HARNESS", "  ["))]
    return {"rc": c.returncode, "wall_s": round(time.time() - t0, 1), "first": [l[:300] for l in lines[:2]]}


def verify_one(sid, all_checks=False, tier="quick"):
    d = os.path.join(SEEDED, sid)
    meta = json.load(open(os.path.join(d, "meta.json")))
    pid = meta["property"]
    tmp, tree = mutants.scratch_copy()
    ran = []
    try:
        rc0, out0 = _demo(tree, d)
        ran.append({"cmd": "demo.py on unchanged tree", "rc": rc0})
        ap = subprocess.run(["git", "-C", tree, "apply", "--3way", os.path.join(d, "patch.diff")], capture_output=True, text=True)
        if ap.returncode != 0:
            ap = subprocess.run(["git", "-C", tree, "apply", os.path.join(d, "patch.diff")], capture_output=True, text=True)
        ran.append({"cmd": "git apply patch.diff", "rc": ap.returncode, "err": ap.stderr[-200:]})
        if ap.returncode != 0:
            meta["verified"] = {"ok": False, "why": "patch does not apply to current HEAD", "ran": ran}
            return meta
        t = subprocess.run([PY, "-m", "pytest", "-q", "-p", "no:cacheprovider", "-n", "8", "src"], cwd=tree, capture_output=True, text=True, env=_env(tree))
        tail = (t.stdout.strip().splitlines() or [""])[-1]
        ran.append({"cmd": "pytest -q -n 8 src (with patch)", "rc": t.returncode, "tail": tail})
        rc1, out1 = _demo(tree, d)
        ran.append({"cmd": "demo.py with patch", "rc": rc1, "tail": out1[-200:]})
        ok = rc0 == 0 and t.returncode == 0 and rc1 != 0
        checks = {}
        res = _check(pid, tree, tier)
        checks["%s/%s" % (pid, tier)] = res
        if res["rc"] != 1 and tier == "quick" and not os.environ.get("BV_SEEDED_NO_THOROUGH"):
            checks["%s/thorough" % pid] = _check(pid, tree, "thorough")
        if all_checks:
            for f in sorted(os.listdir(os.path.join(VERIF, "bv", "props"))):
                p = f[:-3].upper()
                if f.startswith("c") and f.endswith(".py") and p != pid:
                    checks["%s/%s" % (p, tier)] = _check(p, tree, tier)
        caught_by = sorted(k for k, v in checks.items() if v["rc"] == 1)
        meta["verified"] = {
            "ok": ok,
            "repo_head": subprocess.run(["git", "-C", "/repo", "rev-parse", "--short", "HEAD"], capture_output=True, text=True).stdout.strip(),
            "demo_unchanged_rc": rc0,
            "tests_with_patch": tail,
            "demo_patched_rc": rc1,
            "ran": ran,
            "checks": checks,
            "caught_by": caught_by,
        }
        return meta
    finally:
        mutants.drop_copy(tmp)


def main(argv):
    if argv[0] == "add":
        add(argv[1], argv[2].upper(), argv[3])
        return
    ids = [a for a in argv[1:] if not a.startswith("--")]
    tier = "quick"
    if "--tier" in argv:
        tier = argv[argv.index("--tier") + 1]
        ids = [i for i in ids if i != tier]
    all_checks = "--all-checks" in argv
    no_write = "--no-write" in argv  # (robustness passes at other VERIF_SEED values leave meta.json alone)
    if not ids:
        ids = sorted(os.listdir(SEEDED))
    bad = 0
    for sid in ids:
        meta = verify_one(sid, all_checks, tier)
        if not no_write:
            json.dump(meta, open(os.path.join(SEEDED, sid, "meta.json"), "w"), indent=1)
        v = meta["verified"]
        status = "INVALID" if not v.get("ok") else ("caught" if any(k.startswith(meta["property"]) for k in v["caught_by"]) else "MISSED")
        print(json.dumps({"id": sid, "property": meta["property"], "status": status, "caught_by": v.get("caught_by"), "why": v.get("why"), "tests": v.get("tests_with_patch"), "demo": [v.get("demo_unchanged_rc"), v.get("demo_patched_rc")]}))
        sys.stdout.flush()
        if status != "caught":
            bad += 1
    sys.exit(1 if bad else 0)


if __name__ == "__main__":
    main(sys.argv[1:])
