"""Canonical, comparable snapshots of the observable state (registry, value objects, caches)."""

PROBE = (0.0, 1.0, -3.5)


def _f(fn, x):
    try:
        return repr(fn(x))
    except Exception as e:  # a formula may be undefined at a probe point
        return "raises:%s" % type(e).__name__


def registry(db, probe=PROBE):
    """Everything the public getters show: quantity types, units in order with names / default
    categories / both conversion functions sampled at probe points, base units, categories with
    every CategoryInfo field, the unit index.  Hashable; compare with ==, explain with diff()."""
    out = []
    qts = list(db.GetQuantityTypes())
    out.append(("quantity_types", tuple(qts)))
    for qt in qts:
        try:
            infos = db.GetInfos(qt)
            rows = tuple((i.unit, i.name, i.quantity_type, i.default_category, tuple(_f(i.tobase, x) for x in probe), tuple(_f(i.frombase, x) for x in probe)) for i in infos)
            out.append(("qt", qt, db.GetBaseUnit(qt), tuple(db.GetUnits(qt)), tuple(db.GetUnitNames(qt)), rows))
        except Exception as e:  # a malformed registry must show up as a difference, not stop the harness
            out.append(("qt", qt, "getters raise %s" % type(e).__name__, tuple(i.unit for i in db.quantity_types.get(qt, ()))))
    for c in list(db.IterCategories()):
        i = db.GetCategoryInfo(c)
        out.append(
            (
                "category",
                c,
                i.category,
                i.quantity_type,
                None if i.valid_units is None else tuple(i.valid_units),
                tuple(sorted(i.valid_units_set)) if i.valid_units_set is not None else None,
                i.default_unit,
                repr(i.default_value),
                repr(i.min_value),
                repr(i.max_value),
                i.is_min_exclusive,
                i.is_max_exclusive,
                i.caption,
            )
        )
    out.append(("unit_index", tuple(sorted((u, i.quantity_type, i.unit) for u, i in db.unit_to_unit_info.items()))))
    return tuple(out)


def registry_light(db):
    """Cheap structural fingerprint (no function calls) for sweeps that snapshot very often."""
    return (
        tuple((qt, tuple(i.unit for i in infos)) for qt, infos in db.quantity_types.items()),
        len(db.unit_to_unit_info),
        tuple((c, i.quantity_type, i.default_unit, None if i.valid_units is None else len(i.valid_units), i.min_value, i.max_value) for c, i in db.categories_to_quantity_types.items()),
    )


def diff(a, b):
    """Human-readable first difference between two registry snapshots."""
    if a == b:
        return None
    da = {x[:2]: x for x in a}
    db_ = {x[:2]: x for x in b}
    for k in da:
        if k not in db_:
            return "entry %r disappeared" % (k,)
        if da[k] != db_[k]:
            xa, xb = da[k], db_[k]
            for i, (p, q) in enumerate(zip(xa, xb)):
                if p != q:
                    return "entry %r field %d: %r -> %r" % (k, i, _short(p), _short(q))
            return "entry %r changed length" % (k,)
    for k in db_:
        if k not in da:
            return "entry %r appeared" % (k,)
    return "order of entries changed"


def _short(x):
    s = repr(x)
    return s if len(s) < 300 else s[:300] + "..."


def caches_sound(db):
    """The memoised verdicts and cached quantities must agree with what a fresh computation says
    (a rejected operation may fill a cache, it may never poison it).  Returns list of problems."""
    from barril.units.unit_database import UnitsError

    bad = []
    for (cat, unit), valid in list(getattr(db, "_category_unit_valid", {}).items()):
        try:
            info = db.GetCategoryInfo(cat)
            db.CheckQuantityTypeUnit(info.quantity_type, unit)
            want = True
        except UnitsError:
            want = False
        if bool(valid) != want:
            bad.append("memoised verdict (%r,%r)=%r but a fresh check says %r" % (cat, unit, valid, want))
    for key, q in list(getattr(db, "quantities_cache", {}).items()):
        try:
            if q.IsDerived():
                continue
            cat, unit = q.GetCategory(), q.GetUnit()
            if cat == "" and unit == "":
                continue
            info = db.GetCategoryInfo(cat)
            if info.quantity_type != q.GetQuantityType():
                bad.append("cached quantity %r has quantity type %r, its category says %r" % (q, q.GetQuantityType(), info.quantity_type))
            if info.quantity_type != "Unknown" and unit not in db.unit_to_unit_info:
                bad.append("cached quantity %r for key %r has an unregistered unit" % (q, key))
            elif info.quantity_type != "Unknown" and db.unit_to_unit_info[unit].quantity_type != info.quantity_type:
                bad.append("cached quantity %r for key %r pairs unit and category of different quantity types" % (q, key))
        except Exception as e:
            bad.append("cached quantity under key %r is broken: %s: %s" % (key, type(e).__name__, e))
    return bad


def value_object(o):
    """Deep snapshot of a barril value object (class, quantity identity, unit, category, contents)."""
    import numpy

    from barril.units import Array, FractionScalar, Scalar

    q = o.GetQuantity()
    base = (type(o).__name__, id(q), o.GetUnit(), o.GetCategory(), o.GetQuantityType())
    if isinstance(o, Scalar):
        return base + (repr(o.GetValue()),)
    if isinstance(o, FractionScalar):
        fv = o.GetValue()
        fr = fv.GetFraction()
        return base + (id(fv), repr(fv.GetNumber()), repr(fr.numerator), repr(fr.denominator))
    if isinstance(o, Array):
        v = o.GetValues()
        if isinstance(v, numpy.ndarray):
            content = (str(v.dtype), v.shape, v.tobytes())
        else:
            content = tuple(repr(x) for x in v)
        return base + (id(v), type(v).__name__, content, getattr(o, "dimension", None))
    return base + (repr(o),)
