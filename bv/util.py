"""Small helpers."""


def partition(items, weights, n):
    """Deterministic greedy balancing of items into n parts (largest first); order inside a part
    follows the original order of `items`."""
    order = sorted(range(len(items)), key=lambda i: (-weights[i], i))
    loads = [0] * n
    owner = [0] * len(items)
    for i in order:
        k = min(range(n), key=lambda j: (loads[j], j))
        owner[i] = k
        loads[k] += weights[i]
    parts = [[] for _ in range(n)]
    for i, it in enumerate(items):
        parts[owner[i]].append(it)
    return parts
