from barril.units import UnitDatabase
import itertools, math, time
db = UnitDatabase.GetSingleton()
vals = [0.0, 1.0, -1.0, 1e-30, 1e30, 3.7, -273.15, 273.15, 459.67, -459.67, 101325.0, -101325.0, 14.695948775, 1e-9, 123456.789, -0.1, 2.5e15, 7e-15]
t=time.time()
worst=[]
def T(u, v, x):
    a,b,c = (getattr(u.tobase,'__a__',0.0), getattr(u.tobase,'__b__',1.0), getattr(u.tobase,'__c__',1.0))
    a2,b2,c2 = (getattr(v.tobase,'__a__',0.0), getattr(v.tobase,'__b__',1.0), getattr(v.tobase,'__c__',1.0))
    return abs(c2/b2)*(abs(a)+abs(b*x))/abs(c) + abs(a2/b2)
n=0
mx=0
for qt, infos in db.quantity_types.items():
    for u in infos:
        for v in infos:
            for x in vals:
                y = db.Convert(qt, u.unit, v.unit, x)
                z = db.Convert(qt, v.unit, u.unit, y)
                n+=1
                scale = T(v,u,y) + abs(x)
                # roundtrip error relative
                err = abs(z-x)/scale if scale else abs(z-x)
                if err>mx: mx=err; worst.append((err, qt,u.unit,v.unit,x,y,z))
print(n, time.time()-t, mx)
for w in worst[-8:]: print(w)
