import random, math, sys
from collections import OrderedDict
from barril.units import Scalar, Array, UnitDatabase, Quantity
import numpy as np
random.seed(int(sys.argv[1]) if len(sys.argv)>1 else 1)
db=UnitDatabase.GetSingleton()
def slope(u):
    info=db.unit_to_unit_info[u]; qt=info.quantity_type; b=db.GetBaseUnit(qt)
    return db.Convert(qt,u,b,1.0)-db.Convert(qt,u,b,0.0)
QT={'length':(['m','cm','ft','km','in'],['length','depth','diameter']),'time':(['s','min','h','d'],['time']),'mass':(['kg','g','lbm'],['mass']),'pressure':(['Pa','psi','bar'],['pressure']),'volume':(['m3','bbl','L'],['volume','liquid volume'])}
def shape():
    n=random.randint(1,3); qts=random.sample(list(QT),n)
    fs=[]
    for qt in qts:
        k=random.randint(1,2)
        for _ in range(k): fs.append((qt,random.choice([-3,-2,-1,1,2,3])))
    return fs
def inst(sh):
    units={qt:random.choice(QT[qt][0]) for qt,_ in sh}
    d=OrderedDict(); usedc=set()
    for qt,e in sh:
        cs=[c for c in QT[qt][1] if c not in usedc]
        if not cs: continue
        c=random.choice(cs); usedc.add(c); d[c]=[units[qt],e]
    # totals per qt must be nonzero
    return d,units
def totals(d):
    t={}
    for c,(u,e) in d.items():
        qt=db.GetCategoryQuantityType(c); t[qt]=t.get(qt,0)+e
    return t
bad=0;n=0;nt=0
for i in range(20000):
    sh=shape(); da,ua=inst(sh)
    # b: same categories? not necessarily: same qts with same totals. build with same factor list but other categories/units
    db_,ub=inst(sh)
    ta,tb=totals(da),totals(db_)
    if ta!=tb or any(v==0 for v in ta.values()): continue
    # unit-total zero check (per unit) same as qt since single unit per qt
    qa=Quantity.CreateDerived(da); qb=Quantity.CreateDerived(db_)
    va=random.choice([1.0,2.5,-3.0,1e3, random.uniform(.1,10)]); vb=random.choice([1.0,0.5,-2.0,1e-3, random.uniform(.1,10)])
    a=Scalar.CreateWithQuantity(qa,va); b=Scalar.CreateWithQuantity(qb,vb)
    op=random.choice('+-')
    try: r=a+b if op=='+' else a-b
    except Exception as e:
        bad+=1; print('EXC',da,db_,type(e).__name__,str(e)[:80]) if bad<6 else None; continue
    n+=1
    conv=vb
    for qt,E in ta.items(): conv*= (slope(ub[qt])/slope(ua[qt]))**E
    want=va+conv if op=='+' else va-conv
    if ua!=ub and (len(ta)>1 or any(abs(v)>1 for v in ta.values())): nt+=1
    okq = r.GetQuantity()==qa
    if not okq or not abs(r.value-want)<=1e-9*(abs(va)+abs(conv)):
        bad+=1
        if bad<6: print('MISMATCH',dict(da),dict(db_),va,vb,op,repr(r),want,okq)
print(n,nt,bad)
