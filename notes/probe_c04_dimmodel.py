import random, math, sys
from barril.units import Scalar, Array, UnitDatabase, Quantity
import numpy as np
random.seed(int(sys.argv[1]) if len(sys.argv)>1 else 1)
db=UnitDatabase.GetSingleton()
def slope(u):
    info=db.unit_to_unit_info[u]; qt=info.quantity_type; b=db.GetBaseUnit(qt)
    return db.Convert(qt,u,b,1.0)-db.Convert(qt,u,b,0.0)
def offset(u):
    info=db.unit_to_unit_info[u]; qt=info.quantity_type; b=db.GetBaseUnit(qt)
    return db.Convert(qt,u,b,0.0)
LEAVES=[('m','length'),('cm','length'),('ft','length'),('km','depth'),('in','diameter'),('m','depth'),
        ('s','time'),('min','time'),('h','time'),('kg','mass'),('g','mass'),('lbm','mass'),('Pa','pressure'),('psi','pressure'),('bar','pressure'),
        ('m3','volume'),('bbl','volume'),('K','temperature'),('degR','temperature')]
for u,c in LEAVES: assert offset(u)==0, u
def qt_of_cat(c): return db.GetCategoryQuantityType(c)
def model_of(x):
    q=x.GetQuantity(); dims={}
    for c,(u,e) in q.GetCategoryToUnitAndExps().items():
        qt=qt_of_cat(c); dims[qt]=dims.get(qt,0)+e
    dims={k:v for k,v in dims.items() if v}
    mag=x.value
    for u,e in q.GetComposingUnitsJoiningExponents(): mag*=slope(u)**e
    return mag,dims
def gen(depth):
    if depth==0 or random.random()<0.3:
        u,c=random.choice(LEAVES); v=random.choice([1.0,2.0,0.5,3.7,-1.5,1e3,1e-3, random.uniform(0.1,10)])
        return ('leaf',v,u,c)
    op=random.choice(['*','*','/','/','//','**'])
    if op=='**': return ('**',gen(depth-1),random.randint(1,3))
    return (op,gen(depth-1),gen(depth-1))
def ev(t):
    if t[0]=='leaf': return Scalar(t[1],t[2],t[3])
    if t[0]=='**': return ev(t[1])**t[2]
    a=ev(t[1]); b=ev(t[2])
    return {'*':lambda:a*b,'/':lambda:a/b,'//':lambda:a//b}[t[0]]()
def mv(t):
    if t[0]=='leaf': return t[1]*slope(t[2]), {db.unit_to_unit_info[t[2]].quantity_type:1}
    if t[0]=='**':
        m,d=mv(t[1]); return m**t[2], {k:v*t[2] for k,v in d.items()}
    (ma,da),(mb,db_)=mv(t[1]),mv(t[2])
    if t[0]=='*': m=ma*mb; d={k:da.get(k,0)+db_.get(k,0) for k in set(da)|set(db_)}
    else: m=ma/mb; d={k:da.get(k,0)-db_.get(k,0) for k in set(da)|set(db_)}
    return m,{k:v for k,v in d.items() if v}
bad=0; n=0; nontriv=0
for i in range(30000):
    t=gen(3)
    if '//' in str(t): continue   # handle separately
    try:
        r=ev(t)
    except Exception as e:
        print('EXC',t,type(e).__name__,e); bad+=1; continue
    mm,md=mv(t); rm,rd=model_of(r); n+=1
    if rd!=md or not math.isclose(rm,mm,rel_tol=1e-9):
        bad+=1
        if bad<8: print('MISMATCH',t,repr(r),rm,mm,rd,md)
print(n,bad)
