from barril.units import UnitDatabase
import re, math, collections
db = UnitDatabase.GetSingleton()
U = db.unit_to_unit_info
def slope(info):
    tb = info.tobase
    if hasattr(tb,'__b__'):
        assert tb.__d__ == 0
        return tb.__b__/tb.__c__
    return tb(1.0)-tb(0.0)
def parse_factor(tok, whole):
    """return list of candidate decompositions [(coef, [(unit,exp)])]"""
    cands = []
    # numeric prefix
    m = re.match(r'^(\d+(?:\.\d+)?)(.*)$', tok)
    prefixes = [(1.0, tok)]
    if m and m.group(2):
        prefixes.append((float(m.group(1)), m.group(2)))
    for coef, rest in prefixes:
        # exponent suffix
        m2 = re.match(r'^(.*?)(\d+)$', rest)
        if m2 and m2.group(1) in U and int(m2.group(2))>=2:
            cands.append((coef, m2.group(1), int(m2.group(2))))
        if rest in U and not (rest == whole):
            cands.append((coef, rest, 1))
    return cands
def decompose(sym):
    if sym.count('/')>1: return None
    if any(ch in sym for ch in '()^* '): return None
    num, _, den = sym.partition('/')
    res = []
    coef = 1.0
    for side, sign in ((num, 1),(den,-1)):
        if side == '' : continue
        if side == '1' and sign==1: continue
        for tok in side.split('.'):
            c = parse_factor(tok, sym)
            if not c: return None
            res.append((sign, c))
    return res
n=0; rows=[]
import itertools
for sym, info in U.items():
    d = decompose(sym)
    if d is None or not d: continue
    # choose first candidate each (prefer exponent split)
    best=None
    for choice in itertools.product(*[c for s,c in d]):
        f = 1.0; comp=[]
        for (sign,_),(coef,u,e) in zip(d, choice):
            f *= (coef*slope(U[u])**e)**sign
            comp.append((u, e*sign, coef))
        if len(comp)==1 and comp[0][1]==1 and comp[0][2]==1.0: continue
        mine = slope(info)
        rel = abs(f/mine-1) if mine else float('inf')
        if best is None or rel<best[0]: best=(rel, comp, f, mine)
    if best is None: continue
    n+=1
    rows.append((best[0], sym, info.quantity_type, best[1], best[2], best[3]))
print(n)
rows.sort(reverse=True)
hist = collections.Counter()
for r in rows:
    rel=r[0]
    hist[ 'exact' if rel==0 else ('<1e-12' if rel<1e-12 else ('<1e-9' if rel<1e-9 else ('<1e-7' if rel<1e-7 else ('<1e-6' if rel<1e-6 else ('<1e-5' if rel<1e-5 else ('<1e-4' if rel<1e-4 else ('<1e-3' if rel<1e-3 else '>=1e-3')))))))]+=1
print(hist)
for r in rows[:90]: print("%.3e %-22s %-40s %s comp=%.9g row=%.9g"%(r[0], r[1], r[2], r[3], r[4], r[5]))
