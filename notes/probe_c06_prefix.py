from barril.units import UnitDatabase
import re, math, collections
db = UnitDatabase.GetSingleton()
U = db.unit_to_unit_info
def slope(info):
    tb = info.tobase
    if hasattr(tb,'__b__'): return tb.__b__/tb.__c__
    return tb(1.0)-tb(0.0)
PREF = {'Y':('yotta',1e24),'Z':('zetta',1e21),'E':('exa',1e18),'P':('peta',1e15),'T':('tera',1e12),'G':('giga',1e9),'M':('mega',1e6),'k':('kilo',1e3),'h':('hecto',1e2),'da':('deca',1e1),'d':('deci',1e-1),'c':('centi',1e-2),'m':('milli',1e-3),'u':('micro',1e-6),'n':('nano',1e-9),'p':('pico',1e-12),'f':('femto',1e-15),'a':('atto',1e-18)}
hits=[]
for sym, info in U.items():
    if any(ch in sym for ch in './()^* '): continue
    for p,(pname,pf) in PREF.items():
        if sym.startswith(p) and sym[len(p):] in U and len(sym)>len(p):
            base = U[sym[len(p):]]
            nm = info.name.lower()
            if nm.startswith(pname) :
                rel = abs(slope(info)/(pf*slope(base)) - 1)
                hits.append((rel, sym, info.name, base.unit, base.name, info.quantity_type, base.quantity_type))
            else:
                pass
hits.sort(reverse=True)
print(len(hits))
for h in hits[:25]: print(h)
print(sum(1 for h in hits if h[0]==0), sum(1 for h in hits if 0<h[0]<1e-12))
# which prefix-symbol rows were not matched by name
