from barril.units import UnitDatabase
import re, math, collections, itertools
db = UnitDatabase.GetSingleton()
U = db.unit_to_unit_info
def coefs(info):
    tb=info.tobase
    if hasattr(tb,'__b__'): return tb.__b__, tb.__c__
    return 1.0,1.0
def slope(info):
    b,c=coefs(info); return b/c
def u_lit(x):
    x=abs(float(x))
    if x==0 or x==int(x) and x<1e15: return 0.0
    r=repr(x); mant,_,e=r.partition('e'); e=int(e) if e else 0
    ip,_,fp=mant.partition('.')
    if fp=='0': fp=''
    digits=(ip+fp).lstrip('0'); n=len(digits)
    # position of last digit
    last_exp = e - len(fp)
    return 0.5*10.0**last_exp/x
def u_row(info):
    b,c=coefs(info); return u_lit(b)+u_lit(c)
def parse_factor(tok, whole):
    cands=[]
    m=re.match(r'^(\d+(?:\.\d+)?)(.*)$', tok)
    prefixes=[(1.0,tok)]
    if m and m.group(2): prefixes.append((float(m.group(1)), m.group(2)))
    for coef,rest in prefixes:
        m2=re.match(r'^(.*?)(\d+)$', rest)
        if m2 and m2.group(1) in U and int(m2.group(2))>=2: cands.append((coef,m2.group(1),int(m2.group(2))))
        if rest in U and rest!=whole: cands.append((coef,rest,1))
    return cands
def decompose(sym):
    if sym.count('/')>1 or any(ch in sym for ch in '()^* '): return None
    num,_,den=sym.partition('/'); res=[]
    for side,sign in ((num,1),(den,-1)):
        if side=='' or (side=='1' and sign==1): continue
        for tok in side.split('.'):
            c=parse_factor(tok,sym)
            if not c: return None
            res.append((sign,c))
    return res
rows=[]
for sym,info in U.items():
    d=decompose(sym)
    if not d: continue
    best=None
    for choice in itertools.product(*[c for s,c in d]):
        f=1.0; comp=[]
        for (sign,_),(coef,u,e) in zip(d,choice):
            f*=(coef*slope(U[u])**e)**sign; comp.append((u,e*sign,coef))
        if len(comp)==1 and comp[0][1]==1 and comp[0][2]==1.0: continue
        rel=abs(f/slope(info)-1)
        if best is None or rel<best[0]: best=(rel,comp)
    if best: rows.append((best[0],sym,u_row(info),best[1]))
print(len(rows))
for FLOOR in (1e-7,5e-7,1e-6,2e-6,1e-5):
    for K in (1,2,4):
        n=sum(1 for rel,sym,ur,comp in rows if rel>max(FLOOR,K*ur)+1e-12)
        print(FLOOR,K,n, end=' | ')
    print()
viol=[(rel,sym,ur) for rel,sym,ur,comp in rows if rel>max(5e-7,2*ur)+1e-12]
viol.sort(reverse=True)
print([ (s, float('%.3g'%r), float('%.2g'%u)) for r,s,u in viol])
