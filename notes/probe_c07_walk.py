import random, copy, pickle
from collections import OrderedDict
from barril.units import Scalar, Array, ObtainQuantity, Quantity, UnitDatabase, FractionScalar, FixedArray
import numpy as np
random.seed(5)
db=UnitDatabase(); UnitDatabase.FillUnitDatabaseWithPosc(db); UnitDatabase.PushSingleton(db); Quantity._EMPTY_QUANTITY=None
def snap(q):
    return (q.GetCategory(), q.GetQuantityType(), q.GetUnit(), q.GetComposingUnits(), q.GetComposingCategories(), q.GetComposingUnitsJoiningExponents(),
            tuple((c,tuple(ue)) for c,ue in q.GetCategoryToUnitAndExps().items()), q.GetUnknownCaption(), hash(q), repr(q), q.IsDerived(), q.GetUnitName() )
snaps={}
def check():
    for k,q in list(db.quantities_cache.items()):
        s=snap(q)
        if id(q) in snaps:
            if snaps[id(q)][1]!=s: print("CHANGED", snaps[id(q)][1], s); raise SystemExit
        else: snaps[id(q)]=(q,s)
units=[('m','length'),('cm','length'),('m','depth'),('ft','depth'),('s','time'),('min','time'),('kg','mass'),('g','mass'),('K','temperature'),('degC','temperature'),('m2','area')]
pool=[Scalar(random.uniform(1,9),u,c) for u,c in units]
for step in range(30000):
    a=random.choice(pool); b=random.choice(pool); op=random.choice(['*','/','+','-','<','conv','copy','pickle','arr','q*','q/','fail','obt'])
    try:
        if op in '*/+-': r=eval(f'a{op}b'); 
        elif op=='<': a<b; r=None
        elif op=='conv': a.GetValue(random.choice(units)[0]); r=None
        elif op=='copy': assert copy.copy(a.GetQuantity()) is a.GetQuantity() and copy.deepcopy(a.GetQuantity()) is a.GetQuantity(); r=None
        elif op=='pickle': q2=pickle.loads(pickle.dumps(a.GetQuantity())); assert q2==a.GetQuantity() and hash(q2)==hash(a.GetQuantity()), (q2, a.GetQuantity()); r=None
        elif op=='arr': r=None; x=Array(a.GetQuantity(),[1.,2.]) ; y=Array(b.GetQuantity(), np.array([1.,2.])); z=random.choice([lambda:x*y, lambda:x/y, lambda:x+y])()
        elif op=='q*': r=None; a.GetQuantity()*b.GetQuantity()
        elif op=='q/': r=None; a.GetQuantity()/b.GetQuantity()
        elif op=='obt': r=None; q=a.GetQuantity(); ObtainQuantity(OrderedDict((c,list(ue)) for c,ue in q.GetCategoryToUnitAndExps().items()))
        elif op=='fail': r=None; ObtainQuantity(random.choice(units)[0], random.choice(units)[1])
        if r is not None and len(r.GetQuantity().GetCategoryToUnitAndExps())<=4 and abs(r.value)<1e6 and abs(r.value)>1e-6:
            pool[random.randrange(len(pool))]=r
    except AssertionError: raise
    except Exception as e: pass
    check()
print("ok", len(db.quantities_cache), len(snaps))
