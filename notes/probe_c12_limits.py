from barril.units import Scalar, Array, UnitDatabase
import numpy as np, random, math, itertools
random.seed(2)
db = UnitDatabase(); UnitDatabase.FillUnitDatabaseWithPosc(db); UnitDatabase.PushSingleton(db)
cfgs=[]
i=0
for mn,mx in [(None,None),(0.0,None),(None,10.0),(0.0,10.0),(-5.0,-5.0)]:
    for me,xe in itertools.product([False,True],repeat=2):
        if mn is None and me: continue
        if mx is None and xe: continue
        if mn is not None and mx is not None and mn==mx and (me or xe): continue
        name=f'c{i}'; i+=1
        dv = None
        if me or xe: dv = ((mn if mn is not None else mx-2) + (mx if mx is not None else mn+2))/2
        db.AddCategory(name,'length',min_value=mn,max_value=mx,is_min_exclusive=me,is_max_exclusive=xe,default_value=dv, default_unit='m')
        cfgs.append((name,mn,mx,me,xe))
def ok(v,mn,mx,me,xe):
    if mn is None and mx is None: return True
    if v!=v: return False
    if mn is not None and not (v>mn if me else v>=mn): return False
    if mx is not None and not (v<mx if xe else v<=mx): return False
    return True
units=['m','cm','km','ft']
pool=[0.0,10.0,-5.0,1.0,5.0,-1.0,11.0,float('nan'),float('inf'),-float('inf'),1e-300,-0.0, 9.999999999, 10.000001]
mism=0
for trial in range(20000):
    name,mn,mx,me,xe = random.choice(cfgs); u=random.choice(units)
    n=random.randint(0,5)
    base=[random.choice(pool) for _ in range(n)]
    vals=[db.Convert('length','m',u,v) for v in base]
    back=[db.Convert('length',u,'m',v) for v in vals]
    exp_scalar=[ok(b,mn,mx,me,xe) for b in back]
    nonnan=[e for e,b in zip(exp_scalar,back) if b==b]
    exp_arr = all(nonnan)
    for cont in (list, tuple, lambda x: np.array(x,dtype=float)):
        a = Array(cont(vals), u, name)
        got=a.IsValid()
        if got!=exp_arr: mism+=1; print('ARR', name,(mn,mx,me,xe),u,vals,back,got,exp_arr) if mism<10 else None
    for v,e in zip(vals,exp_scalar):
        got=Scalar(v,u,name).IsValid()
        if got!=e: mism+=1; print('SC', name,(mn,mx,me,xe),u,v,got,e) if mism<10 else None
print('mism',mism)
