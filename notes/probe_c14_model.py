import itertools, copy, sys, collections
from barril.units import UnitDatabase, Scalar, Quantity
from barril.units.unit_database import UnitsError, InvalidQuantityTypeError, FixUnitIfIsLegacy
def k2(x): return x*1000.0
def k1(x): return x/1000.0
OPS=[
 ('base','L','metre','m'), ('unit','L','centimetre','cm','%f*100.0','%f/100.0',None), ('unit','L','kilometre','km',k1,k2,'depth'),
 ('base','T','second','s'), ('unit','T','minute','min','x/60.0','x*60.0',None),
 ('unit','T','metre2','m','%f','%f',None),        # duplicate symbol across types
 ('unit','L','bad','mm','%f*','%f/1000.0',None),  # bad formula
 ('cat','L',dict(quantity_type='L')), ('cat','depth',dict(quantity_type='L',valid_units=['cm','km'])),
 ('cat','depth',dict(quantity_type='L',override=True,default_unit='km',min_value=0.0,max_value=10.0,default_value=5.0)),
 ('cat','depth',dict(quantity_type='T',override=True)),
 ('cat','x',dict(from_category='depth',min_value=1.0)),
 ('cat','x',dict(from_category='depth',override=True,valid_units=['m'])),
 ('cat','bad1',dict(quantity_type='Q')), ('cat','bad2',dict(quantity_type='L',default_unit='s')),
 ('cat','bad3',dict(quantity_type='L',min_value=2.0,is_min_exclusive=True)), ('cat','bad4',dict(quantity_type='L',min_value=2.0,default_value=1.0)),
]
class M:
    def __init__(s): s.qt=collections.OrderedDict(); s.units={}; s.cats=collections.OrderedDict()
def model_apply(m,op):
    """returns True if accepted"""
    if op[0] in('base','unit'):
        if op[0]=='base': _,qt,name,u=op; fb=tb='id'; dc=None
        else: _,qt,name,u,fb,tb,dc=op
        for f in (fb,tb):
            if isinstance(f,str) and f!='id':
                ss=f.replace('%s','x').replace('%f','x')
                if 'x' not in ss: return False
                try: eval('lambda x:%s'%ss)
                except SyntaxError: return False
        if u in m.units: return False
        m.units[u]=dict(qt=qt,name=name,dc=dc,base=(op[0]=='base'))
        lst=m.qt.setdefault(qt,[])
        if op[0]=='base': lst.insert(0,u)
        else: lst.append(u)
        return True
    _,cat,kw=op; kw=dict(kw)
    qt=kw.get('quantity_type'); fc=kw.get('from_category'); ov=kw.get('override',False)
    vu=kw.get('valid_units'); du=kw.get('default_unit'); dv=kw.get('default_value'); mn=kw.get('min_value'); mx=kw.get('max_value')
    me=kw.get('is_min_exclusive',False); xe=kw.get('is_max_exclusive',False)
    if fc and qt: return False
    if not ov and cat in m.cats: return False
    if mn is not None and mx is not None and mx<mn: return False
    if fc:
        if fc not in m.cats: return False
        ci=m.cats[fc]; qt=ci['qt']
        if vu is None: vu=ci['vu']
        if du is None: du=ci['du']
        if dv is None: dv=ci['dv']
        if mn is None: mn=ci['mn']
        if mx is None: mx=ci['mx']
    if qt is None: return False
    if vu is not None:
        if qt not in m.qt: return False
        vu=[FixUnitIfIsLegacy(u)[1] for u in vu]
        if any(u not in m.qt[qt] for u in vu): return False
    if du is None:
        if qt not in m.qt: return False
        du=m.qt[qt][0]
        if vu and du not in vu: du=vu[0]
    else:
        if qt not in m.qt: return False
        du=FixUnitIfIsLegacy(du)[1]
        if du not in m.qt[qt]: return False
    if dv is None:
        if me or xe: return False
        dv = mn if mn is not None else (mx if mx is not None else 0.0)
    else:
        if mn is not None and not (dv>mn if me else dv>=mn): return False
        if mx is not None and not (dv<mx if xe else dv<=mx): return False
    m.cats[cat]=dict(qt=qt,vu=None if vu is None else list(vu),du=du,dv=dv,mn=mn,mx=mx,me=me,xe=xe)
    return True
def m_valid_units(m,cat):
    ci=m.cats[cat]
    if ci['vu'] is not None: return ('ok',ci['vu'])
    if ci['qt']!=cat:
        if ci['qt'] in m.cats: return m_valid_units(m,ci['qt'])
        return ('ok',m.qt[ci['qt']])
    return ('ok',m.qt[ci['qt']])
def m_default_category(m,u):
    ui=m.units[u]
    if ui['dc']: return ui['dc']
    return ui['qt'] if ui['qt'] in m.cats else None
def observe(db,m):
    """compare; return list of diffs"""
    d=[]
    if db.GetQuantityTypes()!=sorted(m.qt): d.append(('qts',db.GetQuantityTypes(),sorted(m.qt)))
    for qt,us in m.qt.items():
        if db.GetUnits(qt)!=us: d.append(('units',qt,db.GetUnits(qt),us))
        if db.GetBaseUnit(qt)!=us[0]: d.append(('base',qt))
        if db.GetUnitNames(qt)!=[m.units[u]['name'] for u in us]: d.append(('names',qt))
    for u,ui in m.units.items():
        if db.GetQuantityType(u)!=ui['qt']: d.append(('qt of',u))
        if db.GetDefaultCategory(u)!=m_default_category(m,u): d.append(('defcat',u,db.GetDefaultCategory(u),m_default_category(m,u)))
    if list(db.IterCategories())!=list(m.cats): d.append(('cats',list(db.IterCategories()),list(m.cats)))
    for c,ci in m.cats.items():
        info=db.GetCategoryInfo(c)
        got=(info.quantity_type,info.valid_units,info.default_unit,info.default_value,info.min_value,info.max_value,info.is_min_exclusive,info.is_max_exclusive)
        want=(ci['qt'],ci['vu'],ci['du'],ci['dv'],ci['mn'],ci['mx'],ci['me'],ci['xe'])
        if got!=want: d.append(('catinfo',c,got,want))
        st,vu=m_valid_units(m,c)
        try: g=('ok',db.GetValidUnits(c))
        except UnitsError: g=('err',None)
        if g!=(st,vu): d.append(('validunits',c,g,(st,vu)))
        # invariants
        if ci['du'] not in m.qt.get(ci['qt'],[]): d.append(('INV default unit',c))
        try:
            s=Scalar(c)
            if not s.IsValid(): d.append(('INV default invalid',c,repr(s)))
        except Exception as e: d.append(('INV Scalar(category) fails',c,type(e).__name__,str(e)[:60]))
        for u in m.qt.get(ci['qt'],[]):
            try: Scalar(1.0,u,c)
            except Exception as e: d.append(('INV Scalar(1,u,c) fails',u,c,type(e).__name__))
    for qt,us in m.qt.items():
        if any(m.units[u]['base'] for u in us):
            info=db.GetInfo(qt,us[0])
            if not m.units[us[0]]['base'] or info.tobase(3.0)!=3.0 or info.frombase(3.0)!=3.0: d.append(('INV base identity',qt))
    return d
def snap(db):
    return (tuple((qt,tuple(i.unit for i in infos)) for qt,infos in db.quantity_types.items()), tuple(sorted(db.unit_to_unit_info)), tuple((c,repr(ci)) for c,ci in db.categories_to_quantity_types.items()))
def run(seq):
    db=UnitDatabase(); UnitDatabase.PushSingleton(db); Quantity._EMPTY_QUANTITY=None
    try:
        m=M()
        for step,op in enumerate(seq):
            before=snap(db); mb=copy.deepcopy(m)
            acc=model_apply(m,op)
            if not acc: m=mb
            try:
                if op[0]=='base': db.AddUnitBase(*op[1:])
                elif op[0]=='unit': db.AddUnit(op[1],op[2],op[3],op[4],op[5],default_category=op[6])
                else:
                    kw=copy.deepcopy(op[2]); db.AddCategory(op[1],**kw)
                real=True
            except Exception as e:
                real=False; exc=e
            if real!=acc: return (step,op,'accept',real,acc, None if real else (type(exc).__name__,str(exc)[:60]))
            if not real and snap(db)!=before: return (step,op,'not atomic')
            d=observe(db,m)
            if d: return (step,op,'obs',d[0])
        return None
    finally:
        UnitDatabase.PopSingleton()
depth=int(sys.argv[1]); n=0; bad=collections.Counter(); ex={}
for seq in itertools.product(OPS,repeat=depth):
    n+=1; r=run(seq)
    if r:
        k=(r[2], str(r[3])[:60] if len(r)>3 else ''); bad[k]+=1; ex.setdefault(k,(seq,r))
print(n,sum(bad.values()))
for k,v in bad.most_common(12): print(k,v,'\n   ',[o[:4] for o in ex[k][0]],'\n   ',ex[k][1][1:])
