from barril.units import Scalar, Array, FixedArray, ObtainQuantity, Quantity, UnitDatabase, FractionScalar
from barril.units.unit_database import _LEGACY_TO_CURRENT, FixUnitIfIsLegacy
db = UnitDatabase.GetSingleton()
U = db.unit_to_unit_info
# current symbols rewritten?
for u in U:
    ch, f = FixUnitIfIsLegacy(u)
    if ch: print("CURRENT REWRITTEN", u, f)
    ch2, f2 = FixUnitIfIsLegacy(f)
    if ch2: print("NOT IDEMPOTENT", u, f, f2)
legacy = {}
for u in U:
    for leg, cur in _LEGACY_TO_CURRENT:
        if cur in u:
            # replace each occurrence (all)
            l = u.replace(cur, leg)
            ch, f = FixUnitIfIsLegacy(l)
            legacy.setdefault(l, set()).add(u)
            if f != u: print("legacy->", l, "fixes to", f, "not", u)
print(len(legacy))
amb = {l:v for l,v in legacy.items() if len(v)>1}; print(amb)
bad=0
def P(label, f):
    try: return f()
    except BaseException as e: return ("ERR", type(e).__name__, str(e)[:60])
for l,(u,) in [(l,tuple(v)) for l,v in legacy.items() if len(v)==1]:
    if l in U: print("legacy is also current", l); continue
    info = U[u]; qt = info.quantity_type
    r = [P('', lambda: ObtainQuantity(l) == ObtainQuantity(u)),
         P('', lambda: Scalar(1.0,l) == Scalar(1.0,u)),
         P('', lambda: Scalar(1.0,l, db.GetDefaultCategory(u)) == Scalar(1.0,u)),
         P('', lambda: Array([1.0],l) == Array([1.0],u)),
         P('', lambda: FractionScalar(1.0,l) == FractionScalar(1.0,u)),
         P('', lambda: Scalar(1.0,u).CreateCopy(unit=l) == Scalar(1.0,u)),
         P('', lambda: Scalar(1.0,u).GetValue(l)==1.0),
         P('', lambda: Array([1.0],u).GetValues(l)==[1.0]),
         P('', lambda: db.Convert(qt, l, db.GetBaseUnit(qt), 1.0)==db.Convert(qt, u, db.GetBaseUnit(qt), 1.0)),
         P('', lambda: db.Convert(qt, db.GetBaseUnit(qt), l, 1.0)==db.Convert(qt, db.GetBaseUnit(qt), u, 1.0)),
         P('', lambda: db.GetDefaultCategory(l)==db.GetDefaultCategory(u)),
         P('', lambda: db.GetQuantityType(l)==db.GetQuantityType(u)),
         P('', lambda: (db.CheckQuantityTypeUnit(qt,l), True)[1]),
         P('', lambda: Scalar(1.0,u).GetQuantity().ConvertScalarValue(1.0,l)==1.0),
         P('', lambda: Scalar(1.0,l).GetValue(u)==1.0),
         P('', lambda: repr(Scalar(1.0,l))),
         ]
    if not all(x is True for x in r[:12]): print(l,u,r)
