import itertools, copy, sys, collections
from barril.units.unit_system_manager import UnitSystemManager, UnitSystemIDError, UnitSystemCategoriesError, InvalidTemplateError
IDS=['a','b']; 
SHARED={'length':'m','time':'s'}
def mk_ops():
    ops=[]
    ops.append(('tmpl',('length',)))
    ops.append(('tmpl',('length','time')))
    for i in IDS:
        ops.append(('add',i,'none'))
        ops.append(('add',i,'len'))      # {'length':'cm'}
        ops.append(('add',i,'both'))     # fresh {'length':'m','time':'s'}
        ops.append(('rm',i))
        ops.append(('cur',i))
        ops.append(('setu',i,'length','km'))
        ops.append(('rmcat',i,'time'))
    ops.append(('cur',None))
    return ops
OPS=mk_ops()
class Model:
    def __init__(s): s.sys=collections.OrderedDict(); s.cur=None; s.tmpl=None; s.log=[]
def run(seq):
    m=UnitSystemManager(); log=[]
    m.on_current.Register(lambda us: log.append(('cur',us.GetId())))
    m.on_unit_changed.Register(lambda c,u: log.append(('unit',c,u)))
    M=Model(); problems=[]
    for step,op in enumerate(seq):
        exp_log=[]; exp_exc=None
        # ---- model
        Mb=copy.deepcopy((M.sys,M.cur,M.tmpl))
        if op[0]=='tmpl':
            cats=op[1]
            bad=[i for i,mp in M.sys.items() if not set(mp)>=set(cats)]
            if bad: exp_exc=InvalidTemplateError
            else: M.tmpl={c:{'length':'m','time':'s'}[c] for c in cats}
        elif op[0]=='add':
            i=op[1]
            if i in M.sys: exp_exc=UnitSystemIDError
            else:
                mp={'none':None,'len':{'length':'cm'},'both':{'length':'m','time':'s'}}[op[2]]
                if M.tmpl is not None:
                    if mp is None: mp=dict(M.tmpl)
                    elif not set(mp)>=set(M.tmpl): exp_exc=UnitSystemCategoriesError
                elif mp is None: mp={}
                if exp_exc is None:
                    M.sys[i]=dict(mp)
                    if M.cur is None: M.cur=i; exp_log.append(('cur',i))
        elif op[0]=='rm':
            i=op[1]
            if i not in M.sys: exp_exc=KeyError
            else:
                del M.sys[i]
                if M.cur==i:
                    M.cur=next(iter(M.sys),None); exp_log.append(('cur',M.cur))
        elif op[0]=='cur':
            i=op[1]
            if i is not None and i not in M.sys: continue  # precondition: registered
            reselect = (i==M.cur)
            M.cur=i; exp_log.append(('cur',i) if not reselect else ('cur?',i))
        elif op[0]=='setu':
            i=op[1]
            if i not in M.sys: continue
            M.sys[i][op[2]]=op[3]
            if M.cur==i: exp_log.append(('unit',op[2],op[3]))
        elif op[0]=='rmcat':
            i=op[1]
            if i not in M.sys: continue
            if op[2] in M.sys[i]:
                del M.sys[i][op[2]]
                if M.cur==i: exp_log.append(('unit',op[2],None))
        # ---- real
        del log[:]
        got_exc=None
        try:
            if op[0]=='tmpl': m.SetTemplateUnitSystemByUnitsMapping({c:{'length':'m','time':'s'}[c] for c in op[1]})
            elif op[0]=='add':
                mp={'none':None,'len':{'length':'cm'},'both':{'length':'m','time':'s'}}[op[2]]
                m.AddUnitSystem(op[1],'cap',mp)
            elif op[0]=='rm': m.RemoveUnitSystem(op[1])
            elif op[0]=='cur': m.SetCurrent(m.GetUnitSystems()[op[1]] if op[1] else None)
            elif op[0]=='setu': m.GetUnitSystems()[op[1]].SetDefaultUnit(op[2],op[3])
            elif op[0]=='rmcat': m.GetUnitSystems()[op[1]].RemoveCategory(op[2])
        except Exception as e:
            got_exc=type(e)
        if exp_exc is not None: M.sys,M.cur,M.tmpl=Mb
        # compare
        if (got_exc is None)!=(exp_exc is None) or (exp_exc and not issubclass(got_exc,exp_exc)):
            problems.append((step,op,'exc',got_exc,exp_exc)); break
        el=[e for e in exp_log if e[0]!='cur?']; 
        gl=list(log)
        opt=[('cur',e[1]) for e in exp_log if e[0]=='cur?']
        if gl!=el and gl!=el+opt and gl!=opt+el:
            problems.append((step,op,'log',gl,exp_log)); break
        state=(list(m.GetUnitSystems()), m.GetCurrent().GetId(), {i:dict(s.GetUnitsMapping()) for i,s in m.GetUnitSystems().items()})
        mstate=(list(M.sys), M.cur, {i:dict(mp) for i,mp in M.sys.items()})
        if state!=mstate: problems.append((step,op,'state',state,mstate)); break
        if m.GetNewId() in M.sys: problems.append((step,op,'newid')); break
    return problems
depth=int(sys.argv[1]); n=0; bad=collections.Counter(); ex={}
for seq in itertools.product(OPS,repeat=depth):
    n+=1
    pr=run(seq)
    if pr:
        k=(pr[0][1][0],pr[0][2], str(pr[0][3])[:40]); bad[k]+=1; ex.setdefault(k,(seq,pr))
print(n, sum(bad.values()))
for k,v in bad.most_common(): print(k,v,'\n   ',ex[k])
