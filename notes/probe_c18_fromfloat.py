from barril.basic.fraction import FractionValue, Fraction
import random, collections
random.seed(1)
bad=collections.Counter(); ex={}
N=0
for digits in range(1,9):
    for _ in range(20000):
        mant = random.randint(1, 10**digits-1)
        e = random.randint(-digits-3, 3)
        v = float(f"{mant}e{e}")
        if random.random()<0.5: v=-v
        N+=1
        try:
            fv = FractionValue.CreateFromFloat(v)
            f = float(fv)
            if abs(f-v) > 1e-9*abs(v):
                k=('wrong', 'sci' if 'e' in str(abs(v)%1 if True else v) or 'e' in str(v) else 'plain')
                bad[k]+=1; ex.setdefault(k,[]).append((v, fv, f))
        except Exception as e:
            k=('exc', type(e).__name__); bad[k]+=1; ex.setdefault(k,[]).append((v,str(e)[:50]))
print(N, bad)
for k,v in ex.items(): print(k, v[:6])
import math
plain=[(v,fv,f) for (v,fv,f) in ex.get(('wrong','sci'),[]) if 'e' not in str(abs(v)) ]
print(len(plain), plain[:10])
vs=[abs(v) for (v,fv,f) in ex.get(('wrong','sci'),[])]
print(min(vs), max(vs))
