import random, re, sys
from barril.units import Scalar, UnitDatabase
random.seed(1)
db=UnitDatabase.GetSingleton()
LEAVES=[('m','length'),('cm','length'),('km','depth'),('m','depth'),('s','time'),('min','time'),('kg','mass'),('g','mass'),('Pa','pressure'),('psi','pressure'),('K','temperature'),('A','electric current'),('mol','molar mass'),('N','force'),('W','power')]
def parse_unit(s):
    if s=='': return {}
    num,sep,den=s.partition('/')
    assert '/' not in den, s
    out={}
    def side(t,sign):
        for tok in t.split('.'):
            m=re.fullmatch(r'([A-Za-z]+)(\d*)',tok); assert m,(s,tok)
            assert m.group(1) not in out,(s,tok)
            e=int(m.group(2)) if m.group(2) else 1
            assert e>=1 and (m.group(2)=='' or e>=2),(s,tok)
            out[m.group(1)]=sign*e
    if num!='1': side(num,1)
    else: assert sep, s
    if sep: side(den,-1)
    return out
def parse_names(s):
    if s=='': return []
    parts=s.split(' / '); assert len(parts)<=2,s
    out=[]
    for i,p in enumerate(parts):
        if i==0 and p=='1': continue
        for f in p.split(' * '):
            m=re.fullmatch(r'\((.*)\) \*\* (\d+)',f)
            if m: out.append((m.group(1), (1 if i==0 else -1)*int(m.group(2))))
            else: out.append((f, 1 if i==0 else -1))
    return out
def gen(d):
    if d==0 or random.random()<0.3:
        u,c=random.choice(LEAVES); return Scalar(1.0,u,c)
    a=gen(d-1); b=gen(d-1)
    return a*b if random.random()<0.5 else a/b
bad=0;n=0;multi=0
for i in range(20000):
    try: x=gen(3)
    except Exception as e: print('EXC',e); continue
    q=x.GetQuantity()
    if not q.IsDerived(): continue
    n+=1
    joined=dict(q.GetComposingUnitsJoiningExponents())
    try:
        pu=parse_unit(q.GetUnit())
        ok=pu=={k:v for k,v in joined.items()}
        cat=parse_names(q.GetCategory())
        exp_cat=[(c,e) for c,(u,e) in q.GetCategoryToUnitAndExps().items() if e>0]+[(c,e) for c,(u,e) in q.GetCategoryToUnitAndExps().items() if e<0]
        ok2=cat==exp_cat
        qts={}
        for c,(u,e) in q.GetCategoryToUnitAndExps().items():
            qt=db.GetCategoryQuantityType(c); qts[qt]=qts.get(qt,0)+e
        exp_qt=[(k,v) for k,v in qts.items() if v>0]+[(k,v) for k,v in qts.items() if v<0]
        ok3=parse_names(q.GetQuantityType())==exp_qt
        nm={}
        for c,(u,e) in q.GetCategoryToUnitAndExps().items():
            name=db.GetUnitName(db.GetCategoryQuantityType(c),u); nm[name]=nm.get(name,0)+e
        exp_nm=[(k,v) for k,v in nm.items() if v>0]+[(k,v) for k,v in nm.items() if v<0]
        ok4=parse_names(q.GetUnitName())==exp_nm
        if sum(1 for v in joined.values() if v<0)>=2: multi+=1
        if not (ok and ok2 and ok3 and ok4):
            bad+=1
            if bad<6: print('MISMATCH',q.GetUnit(),joined,pu,'|',q.GetCategory(),cat,exp_cat,ok,ok2,ok3,ok4, q.GetQuantityType(), q.GetUnitName())
    except AssertionError as e:
        bad+=1
        if bad<6: print('PARSEFAIL',e, joined, q.GetCategory())
print(n,multi,bad)
