#!/bin/sh
# Offline setup: the checks need hypothesis (and numpy, already a repo dependency) inside /venv.
set -e
if ! /venv/bin/python -c "import hypothesis" 2>/dev/null; then
    PIP_NO_INDEX=1 /venv/bin/pip install --no-index --find-links /opt/veriftools/wheels hypothesis
fi
/venv/bin/python -c "import hypothesis, numpy; print('hypothesis', hypothesis.__version__, 'numpy', numpy.__version__)"
mkdir -p /verif/evidence
